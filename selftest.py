"""Self-tests of the machinery (DESIGN §3): determinism and sensitivity.

  ./check selftest determinism [--units A.rec,C.snap] [--seeds N]
      every deterministic unit: N seeds, each executed in six separate processes
      (two repetitions x GOMAXPROCS 1, 4, 16); the per-run hashes (event log + tape
      consumed + scenario + verdict) must be identical. Exit 2 on divergence.

  ./check selftest sensitivity [--only <id>[,<id>...] | --only check=C18,C10]
      every entry of mutants/catalog.json (hand-made mutants and the confirmed seeded
      changes of sub-agents) is applied to a scratch worktree of /repo OUTSIDE /repo and
      /verif, the quick check of the listed property is run against it and must report a
      VIOLATION; the worktree and its build output are removed. Exit 2 if a listed mutant
      is missed.
"""
import json, os, shutil, subprocess, sys, time, concurrent.futures as cf

VERIF = os.path.dirname(os.path.abspath(__file__))


def determinism(args, drv):
    from checks_table import UNITS, PROPS
    units = args.units.split(",") if args.units else [u for u in UNITS if not UNITS[u].get("race")]
    seeds = args.seeds or 40
    w = drv.Work()
    bad = 0
    try:
        w.prepare()
        for u in units:
            us = UNITS[u]
            binary = w.build(us["pkg"])
            prop = next(p for p in PROPS if u in PROPS[p]["units"])
            results = {}
            procs = []
            for gmp in (1, 4, 16):
                for rep in (0, 1):
                    tag = "%s.g%d.r%d" % (u, gmp, rep)
                    out = os.path.join(w.dir, "det." + tag + ".json")
                    env = drv.goenv()
                    env.update(VERIF_UNIT=u, VERIF_PROP=prop, VERIF_SEED=str(args.seed or 7), VERIF_WORKER="0", VERIF_NWORKERS="1",
                               VERIF_MAXRUNS=str(seeds), VERIF_BUDGET_MS="600000", VERIF_TIER="quick", VERIF_OUT=out, VERIF_LOGHASH="1",
                               VERIF_KNOWN=os.path.join(VERIF, "known_findings.jsonl"), VERIF_REPLAY_DIR=os.path.join(w.dir, "replays"),
                               VERIF_SCRATCH=drv.scratch_root(), GOMAXPROCS=str(gmp))
                    env.update(us.get("env", {}))
                    p = subprocess.Popen([binary, "-test.run", "^TestVerif$", "-test.timeout", "0"], env=env, cwd=w.dir,
                                         stdout=subprocess.DEVNULL, stderr=subprocess.DEVNULL)
                    procs.append((tag, out, p))
            for tag, out, p in procs:
                try:
                    p.wait(timeout=900)
                except subprocess.TimeoutExpired:
                    p.kill()
                if os.path.exists(out):
                    results[tag] = json.load(open(out)).get("log_hashes") or {}
                else:
                    results[tag] = None
            ref_tag = next(iter(results))
            ref = results[ref_tag]
            ok = ref is not None and len(ref) > 0
            for tag, h in results.items():
                if h != ref:
                    ok = False
                    diff = [k for k in (ref or {}) if (h or {}).get(k) != ref[k]]
                    print("DIVERGENCE unit=%s %s vs %s: %d of %d runs differ (first: run %s)" % (u, tag, ref_tag, len(diff), len(ref or {}), diff[:1]))
            print("determinism %-9s %3d seeds x 6 processes (GOMAXPROCS 1/4/16 x 2): %s" % (u, len(ref or {}), "identical" if ok else "DIVERGED"))
            if not ok:
                bad += 1
        return 2 if bad else 0
    finally:
        w.cleanup()


def sensitivity(args, drv):
    cat = json.load(open(os.path.join(VERIF, "mutants", "catalog.json")))
    if args.only:
        # one id, several ids separated by commas, or "check=C18,C10" (all entries run against those checks)
        if args.only.startswith("check="):
            checks = set(args.only[len("check="):].split(","))
            cat = [c for c in cat if c["check"] in checks]
        else:
            ids = set(args.only.split(","))
            cat = [c for c in cat if c["id"] in ids]
    missed, results = [], []

    def one(c):
        patch = os.path.join(VERIF, c["patch"])
        wt = "/tmp/verif_sens_%d_%s" % (os.getpid(), c["id"].replace("/", "_"))
        subprocess.run(["git", "-C", "/repo", "worktree", "remove", "--force", wt], capture_output=True)
        r = subprocess.run(["git", "-C", "/repo", "worktree", "add", "--detach", wt, "HEAD", "-f"], capture_output=True, text=True)
        if r.returncode != 0:
            return c, "worktree-failed", r.stderr
        try:
            r = subprocess.run(["git", "-C", wt, "apply", patch], capture_output=True, text=True)
            if r.returncode != 0:
                return c, "apply-failed", r.stderr[-300:]
            rdir = "/tmp/verif_sens_replays_%d_%s" % (os.getpid(), c["id"].replace("/", "_"))
            env = dict(os.environ, VERIF_REPO=wt, VERIF_REPLAY_DIR=rdir, VERIF_WORKERS="8")
            cmd = [os.path.join(VERIF, "check"), c["check"], "--tier", "quick", "--seed", str(c.get("seed", 1))]
            if c.get("budget"):
                cmd += ["--budget", str(c["budget"])]
            r = subprocess.run(cmd, env=env, capture_output=True, text=True)
            line = [l for l in r.stdout.splitlines() if l.startswith("  rule=")]
            caught = r.returncode == 1 and "VIOLATION property=%s" % c["check"] in r.stdout
            status = "caught" if caught else "MISSED(exit %d)" % r.returncode
            if caught:
                # the replay file must reproduce the violation exactly, in a fresh process, on the same tree
                rp = [l.split("replay=", 1)[1].strip() for l in r.stdout.splitlines() if l.startswith("VIOLATION property=")][0]
                # (a race report replays through the happens-before detector, but the race pass lets the Go runtime
                # choose the interleaving: up to three attempts for those)
                tries = 3 if ".race " in (line[0] if line else "") or "rule=C16.race" in r.stdout or "rule=C18.race" in r.stdout else 1
                for _ in range(tries):
                    r2 = subprocess.run([os.path.join(VERIF, "check"), "replay", rp], env=env, capture_output=True, text=True)
                    if r2.returncode == 1:
                        break
                if r2.returncode != 1:
                    status = "REPLAY-FAILED(exit %d)" % r2.returncode
            return c, status, (line[0].strip()[:160] if line else "")
        finally:
            subprocess.run(["git", "-C", "/repo", "worktree", "remove", "--force", wt], capture_output=True)
            shutil.rmtree("/tmp/verif_sens_replays_%d_%s" % (os.getpid(), c["id"].replace("/", "_")), ignore_errors=True)

    with cf.ThreadPoolExecutor(2) as ex:
        for c, st, info in ex.map(one, cat):
            print("%-44s on %s: %s %s" % (c["id"], c["check"], st, info), flush=True)
            results.append({"id": c["id"], "check": c["check"], "result": st, "detail": info})
            if st != "caught":
                missed.append(c["id"])
    json.dump(results, open(os.path.join(VERIF, "mutants", "last_sensitivity.json"), "w"), indent=1)
    print("sensitivity: %d of %d caught" % (len(cat) - len(missed), len(cat)))
    return 2 if missed else 0


def main(args, drv):
    if args.what == "determinism":
        return determinism(args, drv)
    if args.what == "sensitivity":
        return sensitivity(args, drv)
    print("unknown selftest " + args.what)
    return 2
