// Package verifsim is the simulator kernel: choice tape, run context, evidence
// accumulation, minimiser, worker loop and (sched.go) the seeded task
// scheduler. It depends on the standard library only.
package verifsim

// splitmix64 — the only PRNG of the framework.
type splitmix struct{ s uint64 }

func (r *splitmix) next() uint64 {
	r.s += 0x9e3779b97f4a7c15
	z := r.s
	z = (z ^ (z >> 30)) * 0xbf58476d1ce4e5b9
	z = (z ^ (z >> 27)) * 0x94d049bb133111eb
	return z ^ (z >> 31)
}

// Mix hashes a sequence of integers into one (seed derivation, fingerprints).
func Mix(vs ...uint64) uint64 {
	h := uint64(0x51ed270b7a3c4f21)
	for _, v := range vs {
		r := splitmix{h ^ v}
		h = r.next()
	}
	return h
}

// HashString is FNV-1a 64.
func HashString(s string) uint64 {
	h := uint64(14695981039346656037)
	for i := 0; i < len(s); i++ {
		h ^= uint64(s[i])
		h *= 1099511628211
	}
	return h
}

// Tape is the single source of nondeterminism of a run. In generation mode
// values come from the PRNG and are appended to the tape; in replay mode they
// come from the recorded tape (exhausted tape → 0, values reduced mod n).
type Tape struct {
	rng    splitmix
	vals   []uint32
	replay []uint32
	pos    int
	fixed  bool
}

func NewTape(seed uint64) *Tape { return &Tape{rng: splitmix{seed}} }

func ReplayTape(vals []uint32) *Tape {
	return &Tape{replay: vals, fixed: true}
}

// Values returns the choices consumed so far (as recorded: already reduced).
func (t *Tape) Values() []uint32 { return t.vals }

// Draw returns a value in [0,n). n<=1 returns 0 without consuming a choice.
func (t *Tape) Draw(n int) int {
	if n <= 1 {
		return 0
	}
	var v uint32
	if t.fixed {
		if t.pos < len(t.replay) {
			v = t.replay[t.pos] % uint32(n)
		}
		t.pos++
	} else {
		v = uint32(t.rng.next() % uint64(n))
	}
	t.vals = append(t.vals, v)
	return int(v)
}

// Range returns a value in [lo,hi] (inclusive); 0 on the tape means lo.
func (t *Tape) Range(lo, hi int) int {
	if hi <= lo {
		return lo
	}
	return lo + t.Draw(hi-lo+1)
}

// Chance is true with probability num/den; 0 on the tape means false.
func (t *Tape) Chance(num, den int) bool {
	if num <= 0 {
		return false
	}
	if num >= den {
		return true
	}
	return t.Draw(den) >= den-num
}

// Pick returns an index weighted by w (weights >= 0, at least one > 0).
func (t *Tape) Pick(w ...int) int {
	sum := 0
	for _, x := range w {
		sum += x
	}
	if sum <= 0 {
		return 0
	}
	v := t.Draw(sum)
	for i, x := range w {
		if v < x {
			return i
		}
		v -= x
	}
	return len(w) - 1
}

// OneOf returns one of the given ints; 0 on the tape means the first.
func (t *Tape) OneOf(vs ...int) int { return vs[t.Draw(len(vs))] }
