package verifsim

import "syscall"

// StatfsHook is the simulated disk's answer to "how much space is free": the instrumented copy of
// cmd/thermal-recorder/cptvfilerecorder.go calls Statfs below where the source calls syscall.Statfs.
// A hook that does not handle the path (or no hook) falls through to the real system call.
var StatfsHook func(path string, st *syscall.Statfs_t) (handled bool, err error)

func Statfs(path string, st *syscall.Statfs_t) error {
	if h := StatfsHook; h != nil {
		if ok, err := h(path, st); ok {
			return err
		}
	}
	return syscall.Statfs(path, st)
}
