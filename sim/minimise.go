package verifsim

import "time"

// minimise shrinks a failing tape by delta debugging (truncate, delete chunk,
// zero chunk, halve value). A candidate is accepted when the same oracle rule
// of the same property fires. Budget-capped.
func minimise(u *Unit, newRun func(*Tape, uint64, int, bool) *Run, orig []uint32, first *Run, runSeed uint64, idx int) ([]uint32, *Run, int) {
	maxExec := u.MinimiseRuns
	if maxExec == 0 {
		maxExec = 300
	}
	deadline := time.Now().Add(30 * time.Second)
	target := first.viol
	nexec := 0
	best := trimZeros(orig)
	var bestRun *Run

	try := func(c []uint32) bool {
		if nexec >= maxExec || time.Now().After(deadline) {
			return false
		}
		nexec++
		r := newRun(ReplayTape(c), runSeed, idx, true)
		r.Replay = true
		if err := execRun(u, r); err != nil {
			return false
		}
		if r.viol == nil || r.viol.Prop != target.Prop || r.viol.Rule != target.Rule {
			return false
		}
		nb := trimZeros(r.vals)
		if len(nb) > len(c) {
			nb = trimZeros(c)
		}
		best = append([]uint32(nil), nb...)
		bestRun = r
		return true
	}

	// establish that replaying the tape reproduces at all (it must)
	if !try(best) {
		// not reproducible from its own tape: keep the original, say so in the log
		first.Logf("MINIMISER: original tape did not reproduce on re-execution")
		return orig, first, nexec
	}

	// 1. shortest failing prefix (binary search, then verify)
	cur := append([]uint32(nil), best...)
	lo, hi := 0, len(cur)
	for lo < hi && nexec < maxExec {
		mid := (lo + hi) / 2
		if try(cur[:mid]) {
			hi = mid
		} else {
			lo = mid + 1
		}
	}

	// 2. delete chunks
	for size := len(best) / 2; size >= 1 && nexec < maxExec; size /= 2 {
		for i := 0; i+size <= len(best) && nexec < maxExec; {
			c := append(append([]uint32(nil), best[:i]...), best[i+size:]...)
			if !try(c) {
				i += size
			}
		}
	}
	// 3. zero values, 4. halve values
	for i := 0; i < len(best) && nexec < maxExec; i++ {
		if best[i] == 0 {
			continue
		}
		c := append([]uint32(nil), best...)
		c[i] = 0
		if try(c) {
			continue
		}
		for v := best[i] / 2; v > 0 && nexec < maxExec; v /= 2 {
			c := append([]uint32(nil), best...)
			c[i] = v
			if !try(c) {
				break
			}
		}
	}
	// final canonical execution of the best tape, so that message/log belong to it
	r := newRun(ReplayTape(best), runSeed, idx, true)
	r.Replay = true
	if err := execRun(u, r); err == nil && r.viol != nil && r.viol.Rule == target.Rule {
		bestRun = r
	}
	return best, bestRun, nexec
}

func trimZeros(v []uint32) []uint32 {
	n := len(v)
	for n > 0 && v[n-1] == 0 {
		n--
	}
	return v[:n]
}
