package verifsim

import (
	"bufio"
	"encoding/json"
	"fmt"
	"os"
	"os/exec"
	"path/filepath"
	"runtime/debug"
	"strconv"
	"strings"
	"testing"
	"time"
)

// Unit is one world/scenario family compiled into a test binary. A unit may
// serve several properties; VERIF_PROP selects whose rules are reported.
type Unit struct {
	Name        string
	Props       []string
	Run         func(r *Run)
	Rule        string   // how cases are generated and what makes one non-trivial/distinct
	Measure     string   // what the "distinct" classes mean
	Real        []string // components that ran real code
	Stub        []string // components that were stubbed / simulated
	Assumptions []string
	// MinimiseBudget overrides the default number of re-executions.
	MinimiseRuns int
}

// WorkerResult is what a worker process writes to VERIF_OUT.
type WorkerResult struct {
	Unit        string                 `json:"unit"`
	Prop        string                 `json:"property"`
	Tier        string                 `json:"tier"`
	Seed        uint64                 `json:"seed"`
	Worker      int                    `json:"worker"`
	Runs        int64                  `json:"runs"`
	WallS       float64                `json:"wall_s"`
	SimTimeS    float64                `json:"sim_time_s"`
	Probes      map[string]int64       `json:"probes"`
	Faults      map[string]int64       `json:"faults"`
	Counts      map[string]int64       `json:"counts"`
	Distinct    map[string][]uint64    `json:"distinct"`
	Nontriv     []uint64               `json:"nontrivial"`
	Samples     []interface{}          `json:"samples"`
	Violations  []ViolationReport      `json:"violations"`
	Known       map[string]int64       `json:"known"`
	KnownMsg    map[string]string      `json:"known_msg"`
	Other       map[string]int64       `json:"other_property_rules"`
	Rule        string                 `json:"rule"`
	Measure     string                 `json:"measure"`
	Real        []string               `json:"real"`
	Stub        []string               `json:"stub"`
	Assumptions []string               `json:"assumptions"`
	Error       string                 `json:"error,omitempty"`
	ReplayState string                 `json:"replay_state,omitempty"`
	LogHashes   map[string]string      `json:"log_hashes,omitempty"`
	Extra       map[string]interface{} `json:"extra,omitempty"`
}

type ViolationReport struct {
	Violation
	Seed       uint64 `json:"seed"`
	Index      int    `json:"index"`
	ReplayPath string `json:"replay"`
	TapeLen    int    `json:"tape_len"`
	OrigLen    int    `json:"orig_tape_len"`
	MinRuns    int    `json:"minimise_runs"`
}

// ReplayFile is the on-disk replay format.
type ReplayFile struct {
	Property string            `json:"property"`
	Unit     string            `json:"unit"`
	Package  string            `json:"package"`
	Rule     string            `json:"rule"`
	Sig      string            `json:"signature"`
	Message  string            `json:"message"`
	BaseSeed uint64            `json:"base_seed"`
	RunSeed  uint64            `json:"run_seed"`
	Index    int               `json:"run_index"`
	Tier     string            `json:"tier"`
	Tape     []uint32          `json:"tape"`
	OrigLen  int               `json:"orig_tape_len"`
	Scenario []KV              `json:"scenario"`
	LogTail  []string          `json:"event_log_tail"`
	LogHash  string            `json:"event_log_hash"`
	Extra    map[string]string `json:"extra,omitempty"`
	// Prelude: the violation depends on state that survives from earlier runs of the same worker process
	// (e.g. a package-level variable of the daemon). The replay then first re-executes those runs -
	// indices Worker, Worker+NWorkers, ... below run_index, generated from base_seed - in the same process.
	Prelude *Prelude `json:"prelude,omitempty"`
}

type Prelude struct {
	Worker   int `json:"worker"`
	NWorkers int `json:"nworkers"`
}

// freshReplayReproduces re-executes a replay file in a new process of this test binary.
func freshReplayReproduces(path string) bool {
	out := path + ".verify.out"
	defer os.Remove(out)
	cmd := exec.Command(os.Args[0], "-test.run", "^TestVerif$", "-test.timeout", "0")
	var env []string
	for _, kv := range os.Environ() {
		switch {
		case strings.HasPrefix(kv, "VERIF_REPLAY="), strings.HasPrefix(kv, "VERIF_OUT="), strings.HasPrefix(kv, "VERIF_LOGHASH="),
			strings.HasPrefix(kv, "VERIF_RACELOG="), strings.HasPrefix(kv, "VERIF_NO_FRESH_REPLAY="):
		case strings.HasPrefix(kv, "GORACE="):
			if i := strings.Index(kv, "log_path="); i >= 0 {
				rest := kv[i+len("log_path="):]
				j := strings.IndexByte(rest, ' ')
				if j < 0 {
					j = len(rest)
				}
				kv = kv[:i] + "log_path=" + out + ".racelog" + rest[j:]
				env = append(env, "VERIF_RACELOG="+out+".racelog")
			}
			env = append(env, kv)
		default:
			env = append(env, kv)
		}
	}
	cmd.Env = append(env, "VERIF_REPLAY="+path, "VERIF_OUT="+out, "VERIF_NO_FRESH_REPLAY=1")
	done := make(chan error, 1)
	if err := cmd.Start(); err != nil {
		return true // cannot verify: keep the minimised file
	}
	go func() { done <- cmd.Wait() }()
	select {
	case <-done:
	case <-time.After(5 * time.Minute):
		cmd.Process.Kill()
		<-done
	}
	if files, _ := filepath.Glob(out + ".racelog*"); len(files) > 0 {
		for _, f := range files {
			os.Remove(f)
		}
	}
	b, err := os.ReadFile(out)
	if err != nil {
		return false
	}
	var wr WorkerResult
	if json.Unmarshal(b, &wr) != nil {
		return false
	}
	return wr.ReplayState == "reproduced"
}

// isolatedRun executes run index idx in a fresh process of this test binary.
func isolatedRun(idx int) (*WorkerResult, string) {
	out := fmt.Sprintf("%s.iso%d", os.Getenv("VERIF_OUT"), idx)
	defer os.Remove(out)
	cmd := exec.Command(os.Args[0], "-test.run", "^TestVerif$", "-test.timeout", "0")
	var env []string
	for _, kv := range os.Environ() {
		switch {
		case strings.HasPrefix(kv, "VERIF_ISOLATE="), strings.HasPrefix(kv, "VERIF_OUT="), strings.HasPrefix(kv, "VERIF_WORKER="),
			strings.HasPrefix(kv, "VERIF_NWORKERS="), strings.HasPrefix(kv, "VERIF_MAXRUNS="), strings.HasPrefix(kv, "VERIF_LOGHASH="):
		default:
			env = append(env, kv)
		}
	}
	cmd.Env = append(env, "VERIF_OUT="+out, fmt.Sprintf("VERIF_WORKER=%d", idx), "VERIF_NWORKERS=1", "VERIF_MAXRUNS=1", "VERIF_NO_MINIMISE=1", "VERIF_NO_FRESH_REPLAY=1")
	b, _ := cmd.CombinedOutput() // (the child has its own per-run watchdog)
	data, err := os.ReadFile(out)
	if err != nil {
		if len(b) > 3000 {
			b = b[len(b)-3000:]
		}
		return nil, string(b)
	}
	var wr WorkerResult
	if json.Unmarshal(data, &wr) != nil {
		return nil, "unreadable result of the isolated run"
	}
	return &wr, ""
}

func mergeChild(acc *Acc, c *WorkerResult) {
	acc.Runs += c.Runs
	acc.SimTime += time.Duration(c.SimTimeS * float64(time.Second))
	add := func(dst, src map[string]int64) {
		for k, v := range src {
			dst[k] += v
		}
	}
	add(acc.Probes, c.Probes)
	add(acc.Faults, c.Faults)
	add(acc.Counts, c.Counts)
	add(acc.Known, c.Known)
	add(acc.Other, c.Other)
	for k, v := range c.KnownMsg {
		if _, ok := acc.KnownMsg[k]; !ok {
			acc.KnownMsg[k] = v
		}
	}
	for k, vs := range c.Distinct {
		if acc.Distinct[k] == nil {
			acc.Distinct[k] = map[uint64]struct{}{}
		}
		for _, v := range vs {
			if len(acc.Distinct[k]) < maxDistinct {
				acc.Distinct[k][v] = struct{}{}
			}
		}
	}
	for _, v := range c.Nontriv {
		if len(acc.Nontriv) < maxDistinct {
			acc.Nontriv[v] = struct{}{}
		}
	}
	if len(acc.Samples) < 3 {
		acc.Samples = append(acc.Samples, c.Samples...)
	}
}

func runWatchdog() time.Duration {
	return time.Duration(envInt("VERIF_RUN_WATCHDOG_S", 180)) * time.Second
}

func envInt(k string, def int) int {
	if s := os.Getenv(k); s != "" {
		if v, err := strconv.Atoi(s); err == nil {
			return v
		}
	}
	return def
}

func loadKnown(path, prop string) map[string]bool {
	if path == "" {
		return nil
	}
	f, err := os.Open(path)
	if err != nil {
		return nil
	}
	defer f.Close()
	out := map[string]bool{}
	sc := bufio.NewScanner(f)
	sc.Buffer(make([]byte, 1<<20), 1<<20)
	for sc.Scan() {
		line := strings.TrimSpace(sc.Text())
		if line == "" || strings.HasPrefix(line, "#") {
			continue
		}
		var e struct {
			Property  string `json:"property"`
			Rule      string `json:"rule"`
			Signature string `json:"signature"`
			Status    string `json:"status"`
		}
		if json.Unmarshal([]byte(line), &e) != nil {
			continue
		}
		if e.Status != "open" || e.Property != prop {
			continue
		}
		out[e.Property+"|"+e.Rule+"|"+e.Signature] = true
	}
	if len(out) == 0 {
		return nil
	}
	return out
}

// execRun executes the unit once on the given tape. A panic escaping the unit's
// run function is a harness error (units recover panics of the code under test
// themselves where a panic is the property's business).
func execRun(u *Unit, r *Run) (err error) {
	defer func() {
		if p := recover(); p != nil {
			err = fmt.Errorf("harness panic: %v\n%s", p, debug.Stack())
		}
	}()
	u.Run(r)
	return nil
}

// Main is called from the single TestVerif function of each harness package.
func Main(t *testing.T, units ...Unit) {
	name := os.Getenv("VERIF_UNIT")
	if name == "" {
		t.Skip("VERIF_UNIT not set")
	}
	var u *Unit
	for i := range units {
		if units[i].Name == name {
			u = &units[i]
		}
	}
	if u == nil {
		t.Skip("unit not in this package: " + name)
	}
	prop := os.Getenv("VERIF_PROP")
	if prop == "" {
		prop = u.Props[0]
	}
	seed64, _ := strconv.ParseUint(os.Getenv("VERIF_SEED"), 10, 64)
	worker := envInt("VERIF_WORKER", 0)
	nworkers := envInt("VERIF_NWORKERS", 1)
	maxRuns := envInt("VERIF_MAXRUNS", 1000)
	budget := time.Duration(envInt("VERIF_BUDGET_MS", 20000)) * time.Millisecond
	tier := os.Getenv("VERIF_TIER")
	if tier == "" {
		tier = "quick"
	}
	out := os.Getenv("VERIF_OUT")
	known := loadKnown(os.Getenv("VERIF_KNOWN"), prop)
	replayDir := os.Getenv("VERIF_REPLAY_DIR")
	if replayDir == "" {
		replayDir = "/verif/replays"
	}
	hashMode := os.Getenv("VERIF_LOGHASH") != ""

	acc := newAcc()
	res := &WorkerResult{Unit: u.Name, Prop: prop, Tier: tier, Seed: seed64, Worker: worker,
		Rule: u.Rule, Measure: u.Measure, Real: u.Real, Stub: u.Stub, Assumptions: u.Assumptions}
	start := time.Now()

	newRun := func(tape *Tape, runSeed uint64, idx int, quiet bool) *Run {
		return &Run{Tape: tape, Unit: u.Name, Prop: prop, Seed: runSeed, Index: idx, Tier: tier,
			acc: acc, knownSet: known, quiet: quiet}
	}

	finish := func() {
		res.Runs = acc.Runs
		res.WallS = time.Since(start).Seconds()
		res.SimTimeS = acc.SimTime.Seconds()
		res.Probes, res.Faults, res.Counts = acc.Probes, acc.Faults, acc.Counts
		res.Distinct = map[string][]uint64{}
		for k, m := range acc.Distinct {
			res.Distinct[k] = sortedKeys(m)
		}
		res.Nontriv = sortedKeys(acc.Nontriv)
		res.Samples = acc.Samples
		res.Known, res.KnownMsg, res.Other = acc.Known, acc.KnownMsg, acc.Other
		if out != "" {
			b, _ := json.Marshal(res)
			if err := os.WriteFile(out, b, 0644); err != nil {
				t.Fatalf("cannot write %s: %v", out, err)
			}
		}
	}

	// ---- child mode: re-execute one recorded tape (real-kill validation of C10) -------------
	if ct := os.Getenv("VERIF_CHILD_TAPE"); ct != "" {
		b, err := os.ReadFile(ct)
		if err != nil {
			t.Fatalf("child tape: %v", err)
		}
		var vals []uint32
		if err := json.Unmarshal(b, &vals); err != nil {
			t.Fatalf("child tape: %v", err)
		}
		r := newRun(ReplayTape(vals), 0, 0, true)
		r.Replay = true
		r.knownSet = nil
		execRun(u, r)
		return
	}

	// ---- replay mode -------------------------------------------------------
	if rp := os.Getenv("VERIF_REPLAY"); rp != "" {
		b, err := os.ReadFile(rp)
		if err != nil {
			res.Error = "cannot read replay file: " + err.Error()
			finish()
			return
		}
		var rf ReplayFile
		if err := json.Unmarshal(b, &rf); err != nil {
			res.Error = "bad replay file: " + err.Error()
			finish()
			return
		}
		res.Prop = rf.Property
		prop = rf.Property
		tier = rf.Tier
		if rf.Prelude != nil && rf.Prelude.NWorkers > 0 {
			for idx := rf.Prelude.Worker; idx < rf.Index; idx += rf.Prelude.NWorkers {
				runSeed := Mix(rf.BaseSeed, HashString(u.Name), uint64(idx))
				pr := newRun(NewTape(runSeed), runSeed, idx, true)
				pr.Prop = rf.Property
				if err := execRun(u, pr); err != nil {
					res.Error = fmt.Sprintf("prelude run %d: %v", idx, err)
					finish()
					return
				}
				acc.Runs++
			}
		}
		r := newRun(ReplayTape(rf.Tape), rf.RunSeed, rf.Index, false)
		r.Prop = rf.Property
		r.Tier = rf.Tier
		r.Replay = true
		r.knownSet = nil // a replay shows the violation even if it is listed
		if err := execRun(u, r); err != nil {
			res.Error = err.Error()
			finish()
			return
		}
		acc.Runs++
		v := r.viol
		switch {
		case v == nil:
			res.ReplayState = "no-violation"
		case v.Rule == rf.Rule && v.Sig == rf.Sig && v.Msg == rf.Message:
			res.ReplayState = "reproduced"
			res.Violations = append(res.Violations, ViolationReport{Violation: *v, Seed: rf.RunSeed, Index: rf.Index, ReplayPath: rp, TapeLen: len(rf.Tape)})
		default:
			res.ReplayState = "diverged"
			res.Error = fmt.Sprintf("replay diverged: expected %s [%s] %q, got %s [%s] %q", rf.Rule, rf.Sig, rf.Message, v.Rule, v.Sig, v.Msg)
		}
		fmt.Printf("replay log tail:\n%s\n", strings.Join(r.log, "\n"))
		finish()
		return
	}

	// ---- isolated search: every run in a process of its own ---------------
	// (the driver falls back to this when a worker process died: a change that keeps state in a new
	// package-level variable - a pooled channel, say - can make the second run of a process crash the Go
	// runtime, e.g. by using a channel of the previous run's synctest bubble)
	if os.Getenv("VERIF_ISOLATE") != "" {
		res.Extra = map[string]interface{}{"isolated": true}
		for i := 0; i < maxRuns; i++ {
			if i > 0 && time.Since(start) > budget {
				break
			}
			idx := worker + i*nworkers
			child, crash := isolatedRun(idx)
			if child == nil {
				res.Error = fmt.Sprintf("run %d crashed its process even when executed alone:\n%s", idx, crash)
				break
			}
			mergeChild(acc, child)
			if child.Error != "" {
				res.Error = child.Error
				break
			}
			if len(child.Violations) > 0 {
				res.Violations = append(res.Violations, child.Violations...)
				break
			}
		}
		finish()
		return
	}

	// ---- search mode -------------------------------------------------------
	if hashMode {
		res.LogHashes = map[string]string{}
	}
	for i := 0; i < maxRuns; i++ {
		if i > 0 && time.Since(start) > budget {
			break
		}
		idx := worker + i*nworkers
		runSeed := Mix(seed64, HashString(u.Name), uint64(idx))
		r := newRun(NewTape(runSeed), runSeed, idx, false)
		// real-time watchdog: a run that does not come back (e.g. the code under test blocks on something a
		// previous run of this process left behind, which the simulated clock cannot see) ends this process
		// without a result; the driver then repeats this worker's runs one process per run.
		hung := time.AfterFunc(runWatchdog(), func() {
			fmt.Fprintf(os.Stderr, "WATCHDOG: run %d (seed %d) of unit %s did not return within %v of real time; ending this worker process\n", idx, runSeed, u.Name, runWatchdog())
			os.Exit(3)
		})
		err := execRun(u, r)
		hung.Stop()
		if err != nil {
			res.Error = fmt.Sprintf("run %d seed %d: %v", idx, runSeed, err)
			break
		}
		acc.Runs++
		acc.SimTime += r.simTime
		for k, n := range r.OtherProp {
			acc.Other[k] += int64(n)
		}
		for _, k := range r.known {
			acc.Known[k.Key()]++
			if _, ok := acc.KnownMsg[k.Key()]; !ok {
				acc.KnownMsg[k.Key()] = k.Msg
			}
		}
		if hashMode {
			h := r.LogHash()
			for _, v := range r.vals {
				h = Mix(h, uint64(v))
			}
			for _, kv := range r.scenario {
				h = Mix(h, HashString(kv.K), HashString(fmt.Sprint(kv.V)))
			}
			for _, s := range r.nontriv {
				h = Mix(h, HashString(s))
			}
			if r.viol != nil {
				h = Mix(h, HashString(r.viol.Key()+r.viol.Msg))
			}
			res.LogHashes[strconv.Itoa(idx)] = fmt.Sprintf("%016x", h)
		}
		for _, s := range r.nontriv {
			if len(acc.Nontriv) < maxDistinct {
				acc.Nontriv[HashString(s)] = struct{}{}
			}
		}
		if len(r.nontriv) > 0 && len(acc.Samples) < 3 {
			acc.Samples = append(acc.Samples, map[string]interface{}{
				"run_index": idx, "run_seed": runSeed, "tape_len": len(r.vals), "scenario": r.scenario, "signature": r.nontriv[0],
			})
		}
		if r.viol != nil {
			orig := append([]uint32(nil), r.vals...)
			minTape, minRun, nexec := orig, r, 0
			if os.Getenv("VERIF_NO_MINIMISE") == "" { // (isolated runs: a second execution in this process may not be possible)
				minTape, minRun, nexec = minimise(u, newRun, orig, r, runSeed, idx)
			}
			rf := ReplayFile{Property: prop, Unit: u.Name, Rule: minRun.viol.Rule, Sig: minRun.viol.Sig, Message: minRun.viol.Msg,
				BaseSeed: seed64, RunSeed: runSeed, Index: idx, Tier: tier, Tape: minTape, OrigLen: len(orig), Scenario: minRun.scenario,
				LogTail: minRun.log, LogHash: fmt.Sprintf("%016x", minRun.LogHash()), Package: os.Getenv("VERIF_PKG")}
			os.MkdirAll(replayDir, 0755)
			path := filepath.Join(replayDir, fmt.Sprintf("%s-%s-%d-%08x.json", prop, strings.ReplaceAll(u.Name, "/", "_"), seed64, uint32(Mix(runSeed, uint64(len(minTape))))))
			write := func() {
				b, _ := json.MarshalIndent(rf, "", " ")
				if err := os.WriteFile(path, b, 0644); err != nil {
					res.Error = "cannot write replay file: " + err.Error()
				}
			}
			write()
			rep := ViolationReport{Violation: *minRun.viol, Seed: runSeed, Index: idx, ReplayPath: path,
				TapeLen: len(minTape), OrigLen: len(orig), MinRuns: nexec}
			// The replay must reproduce in a fresh process. If the minimised tape alone does not (the
			// violation needs state left behind by earlier runs of this process), fall back to the
			// unminimised tape preceded by this worker's earlier runs.
			if os.Getenv("VERIF_NO_FRESH_REPLAY") == "" && !freshReplayReproduces(path) {
				minimal := rf
				rf.Tape, rf.Rule, rf.Sig, rf.Message, rf.Scenario, rf.LogTail = orig, r.viol.Rule, r.viol.Sig, r.viol.Msg, r.scenario, r.log
				rf.LogHash = fmt.Sprintf("%016x", r.LogHash())
				rf.Extra = map[string]string{"note": "only the unminimised tape reproduces in a fresh process (the shrunk one relied on state left by earlier runs of the searching process)"}
				write()
				ok := freshReplayReproduces(path)
				if !ok {
					rf.Prelude = &Prelude{Worker: worker, NWorkers: nworkers}
					rf.Extra = map[string]string{"note": "depends on state that survives between runs of one process: the replay re-executes this worker's earlier runs first"}
					write()
					ok = freshReplayReproduces(path)
				}
				if ok {
					rep = ViolationReport{Violation: *r.viol, Seed: runSeed, Index: idx, ReplayPath: path, TapeLen: len(orig), OrigLen: len(orig), MinRuns: nexec}
				} else {
					rf = minimal
					rf.Extra = map[string]string{"note": "did not reproduce in a fresh process, neither alone nor after this worker's earlier runs"}
					write()
				}
			}
			res.Violations = append(res.Violations, rep)
			break
		}
	}
	finish()
}
