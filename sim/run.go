package verifsim

import (
	"fmt"
	"sort"
	"time"
)

// Violation is one oracle rule that fired.
type Violation struct {
	Prop string `json:"property"`
	Rule string `json:"rule"`
	// Sig identifies *what* failed independently of the seed (file-name
	// pattern, racing pair, failing call sequence). Known findings match
	// on (Prop, Rule, Sig).
	Sig string `json:"signature"`
	Msg string `json:"message"`
}

func (v *Violation) Key() string { return v.Prop + "|" + v.Rule + "|" + v.Sig }

// Run is the context of one simulated execution.
type Run struct {
	*Tape
	Unit   string
	Prop   string // property this unit run decides; violations of other properties are counted, not reported
	Seed   uint64
	Index  int
	Tier   string
	Replay bool

	acc *Acc

	viol      *Violation
	known     []*Violation
	knownSet  map[string]bool // open known findings (keys); nil if none
	log       []string
	logHash   uint64
	logN      int
	scenario  []KV
	nontriv   []string
	simTime   time.Duration
	quiet     bool // minimiser re-executions do not touch the accumulators
	OtherProp map[string]int
	// Map, when set, rewrites (property, rule, signature) of every violation
	// before it is recorded — used to evaluate one property's rules as part
	// of another's (e.g. C12's liveness clause re-uses the C01–C04 rules).
	Map func(prop, rule, sig string) (string, string, string)
}

type KV struct {
	K string      `json:"k"`
	V interface{} `json:"v"`
}

// Logf appends to the event log. It never draws and never reads a clock.
func (r *Run) Logf(format string, a ...interface{}) {
	s := fmt.Sprintf(format, a...)
	r.logN++
	r.logHash = Mix(r.logHash, HashString(s))
	if len(r.log) >= 400 {
		copy(r.log, r.log[1:])
		r.log = r.log[:len(r.log)-1]
	}
	r.log = append(r.log, fmt.Sprintf("%d %s", r.logN, s))
}

// LogHash is the hash of the whole event log (determinism self-test).
func (r *Run) LogHash() uint64 { return Mix(r.logHash, uint64(r.logN)) }

// Set records a decoded scenario parameter (replay file, samples).
func (r *Run) Set(k string, v interface{}) {
	for i := range r.scenario {
		if r.scenario[i].K == k {
			r.scenario[i].V = v
			return
		}
	}
	r.scenario = append(r.scenario, KV{k, v})
}

// Violate records a violation. The first violation of the unit's own property
// that is not a listed known finding ends the run's verdict; known findings are
// noted and checking continues. Violations of other properties' rules are only
// counted (their own check reports them).
func (r *Run) Violate(prop, rule, sig, format string, a ...interface{}) {
	if r.Map != nil {
		prop, rule, sig = r.Map(prop, rule, sig)
	}
	if prop != r.Prop {
		if r.OtherProp == nil {
			r.OtherProp = map[string]int{}
		}
		r.OtherProp[prop+"/"+rule]++
		return
	}
	v := &Violation{Prop: prop, Rule: rule, Sig: sig, Msg: fmt.Sprintf(format, a...)}
	if r.knownSet != nil && r.knownSet[v.Key()] {
		for _, k := range r.known {
			if k.Key() == v.Key() {
				return
			}
		}
		r.known = append(r.known, v)
		return
	}
	if r.viol == nil {
		r.viol = v
		r.Logf("VIOLATION %s %s [%s] %s", prop, rule, sig, v.Msg)
	}
}

// Failed is true once a reportable violation has been recorded.
func (r *Run) Failed() bool { return r.viol != nil }

// Violation returns the recorded violation or nil.
func (r *Run) Violation() *Violation { return r.viol }

// Probe counts that a rare condition was reached.
func (r *Run) Probe(name string) { r.ProbeN(name, 1) }
func (r *Run) ProbeN(name string, n int) {
	if r.quiet || n == 0 {
		return
	}
	r.acc.Probes[name] += int64(n)
}

// Fault counts a fault that actually fired.
func (r *Run) Fault(kind string) {
	if r.quiet {
		return
	}
	r.acc.Faults[kind]++
}

// Distinct adds a key to a named set whose cardinality is reported.
func (r *Run) Distinct(class, key string) {
	if r.quiet {
		return
	}
	m := r.acc.Distinct[class]
	if m == nil {
		m = map[uint64]struct{}{}
		r.acc.Distinct[class] = m
	}
	if len(m) < maxDistinct {
		m[HashString(key)] = struct{}{}
	}
}

// Nontrivial marks this run as non-trivial by the unit's stated rule; sig is
// the abstract signature used for distinctness.
func (r *Run) Nontrivial(sig string) { r.nontriv = append(r.nontriv, sig) }

// SimTime accounts simulated time covered by this run.
func (r *Run) SimTime(d time.Duration) { r.simTime += d }

// Count adds to a free-form counter (frames processed, files decoded, ...).
func (r *Run) Count(name string, n int) {
	if r.quiet {
		return
	}
	r.acc.Counts[name] += int64(n)
}

const maxDistinct = 20000

// Acc accumulates evidence over the runs of one worker.
type Acc struct {
	Probes   map[string]int64
	Faults   map[string]int64
	Counts   map[string]int64
	Distinct map[string]map[uint64]struct{}
	Nontriv  map[uint64]struct{}
	Samples  []interface{}
	Runs     int64
	SimTime  time.Duration
	Known    map[string]int64
	KnownMsg map[string]string
	Other    map[string]int64
}

func newAcc() *Acc {
	return &Acc{
		Probes: map[string]int64{}, Faults: map[string]int64{}, Counts: map[string]int64{},
		Distinct: map[string]map[uint64]struct{}{}, Nontriv: map[uint64]struct{}{},
		Known: map[string]int64{}, KnownMsg: map[string]string{}, Other: map[string]int64{},
	}
}

func sortedKeys(m map[uint64]struct{}) []uint64 {
	out := make([]uint64, 0, len(m))
	for k := range m {
		out = append(out, k)
	}
	sort.Slice(out, func(i, j int) bool { return out[i] < out[j] })
	return out
}
