package verifsim

// Seeded task scheduler for code instrumented by /verif/tools/instr, running
// inside a testing/synctest bubble (DESIGN §2.3, Appendix B).
//
// Modes (process-wide, chosen by the harness per run):
//   off  – Y calls Hook (processing cost in fake time) and returns; Lock/Unlock
//          are the real operations; Spawn is `go`.
//   sim  – registered tasks park at every Y / Lock and the scheduler (root
//          goroutine of the bubble) decides from the tape who continues.
//   race – like off, plus seeded runtime.Gosched() perturbation from a
//          per-goroutine PRNG (no shared state, so no happens-before edges).

import (
	"fmt"
	"runtime"
	"sort"
	"sync"
	"sync/atomic"
	"testing/synctest"
	"time"
)

const (
	ModeOff int32 = iota
	ModeSim
	ModeRace
)

var (
	mode  atomic.Int32
	cur   *Sched
	curMu sync.Mutex

	// Hook is called by Y in mode off (and for non-task goroutines in mode sim).
	Hook func(label string)

	raceSeed atomic.Uint64
)

type abortSentinel struct{}

// IsAbort reports whether a recovered panic value is the scheduler's abort sentinel
// (harness code that recovers panics of the code under test must re-panic it).
func IsAbort(p interface{}) bool { _, ok := p.(abortSentinel); return ok }

type Task struct {
	ID        int
	Name      string
	wake      chan struct{}
	Label     string
	blockedOn sync.Locker
	rblocked  bool // blockedOn is wanted for reading
	stepSleep int
	parked    bool
	done      bool
	finished  bool
	free      int
	Steps     int
	stalled   int       // remaining steps this task is held back (injected stall)
	stallTill time.Time // held back until the (fake) clock reaches this instant (injected slow disk / slow client)
}

type Sched struct {
	R        *Run
	tasks    []*Task
	byGoid   sync.Map // uint64 -> *Task
	parkCh   chan *Task
	held     map[sync.Locker]*Task
	heldMu   sync.Mutex
	rwStates map[sync.Locker]*rwState
	live     int
	Steps    int
	Sticky   int // probability (percent) of continuing the task that ran last
	MaxFree  int // maximum free passes granted per release
	// AwaitReader: a task about to take the write side of a reader/writer lock first lets up to this many
	// steps pass until some other task holds the read side (a schedule in which the writer arrives while a
	// request is being served - otherwise a needle in the haystack). 0 = off.
	AwaitReader int
	// RecursiveRLock: first recursive read lock seen (task and label); RecursiveRLockWriter: a task that took
	// the write side of that lock during the run ("" if none did).
	RecursiveRLock string
	recursiveOn    sync.Locker
	writeLockedBy  map[sync.Locker]string
	last           *Task
	abort          atomic.Bool
	Switches       int
	// Between is called at every quiescent point before a task is released
	// (observer, crash copies). It runs on the scheduler goroutine.
	Between func(s *Sched)
	// OnPark is called (scheduler goroutine) for the task about to be released.
	Deadlock string
	MaxSteps int
	sigHash  uint64
	Served   map[string]int // label -> times a *different* task was released while some task was parked there
}

func goid() uint64 {
	var buf [40]byte
	n := runtime.Stack(buf[:], false)
	// "goroutine 123 ["
	var id uint64
	for i := 10; i < n; i++ {
		c := buf[i]
		if c < '0' || c > '9' {
			break
		}
		id = id*10 + uint64(c-'0')
	}
	return id
}

// SetMode switches the process-wide instrumentation mode.
func SetMode(m int32) { mode.Store(m) }

// SetRaceSeed seeds the Gosched perturbation of mode race.
func SetRaceSeed(s uint64) { raceSeed.Store(s) }

func NewSched(r *Run) *Sched {
	s := &Sched{R: r, parkCh: make(chan *Task, 256), held: map[sync.Locker]*Task{}, Served: map[string]int{}}
	s.Sticky = 50 + r.Draw(46) // 50..95
	s.MaxFree = r.OneOf(0, 0, 3, 20, 200)
	s.AwaitReader = r.OneOf(0, 0, 100, 600)
	s.MaxSteps = 400000
	curMu.Lock()
	cur = s
	curMu.Unlock()
	mode.Store(ModeSim)
	return s
}

// Close ends scheduling: parked tasks are released with the abort flag.
func (s *Sched) Close() {
	mode.Store(ModeOff)
	curMu.Lock()
	if cur == s {
		cur = nil
	}
	curMu.Unlock()
}

func current() (*Sched, *Task) {
	s := cur
	if s == nil {
		return nil, nil
	}
	if v, ok := s.byGoid.Load(goid()); ok {
		return s, v.(*Task)
	}
	return s, nil
}

// Go starts fn as a scheduled task. Must be called from inside the bubble.
func (s *Sched) Go(name string, fn func()) *Task {
	t := &Task{ID: len(s.tasks), Name: name, wake: make(chan struct{}, 1)}
	s.tasks = append(s.tasks, t)
	s.live++
	go s.runTask(t, fn)
	return t
}

func (s *Sched) runTask(t *Task, fn func()) {
	id := goid()
	s.byGoid.Store(id, t)
	defer func() {
		s.byGoid.Delete(id)
		p := recover()
		if _, ok := p.(abortSentinel); p != nil && !ok {
			// a panic of the code under test inside a task: record and end the task
			s.panicOf(t, p)
		}
		t.done = true
		s.parkCh <- t
	}()
	s.park(t, "task:start")
	fn()
}

var PanicHandler func(task string, p interface{})

func (s *Sched) panicOf(t *Task, p interface{}) {
	if PanicHandler != nil {
		PanicHandler(t.Name, p)
	}
}

func (s *Sched) park(t *Task, label string) {
	t.Label = label
	s.parkCh <- t
	<-t.wake
	if s.abort.Load() {
		panic(abortSentinel{})
	}
}

// Y is inserted before every statement of the instrumented files.
func Y(label string) {
	switch mode.Load() {
	case ModeOff:
		if Hook != nil {
			Hook(label)
		}
		return
	case ModeRace:
		raceYield()
		return
	}
	s, t := current()
	if t == nil {
		if Hook != nil {
			Hook(label)
		}
		return
	}
	if s.abort.Load() {
		panic(abortSentinel{})
	}
	if Hook != nil {
		Hook(label)
	}
	if t.free > 0 {
		t.free--
		t.Label = label
		return
	}
	s.park(t, label)
}

// Yield is Y for harness code (explicit label).
func Yield(label string) { Y(label) }

// SleepSteps parks the calling task for n scheduler steps (the step clock).
func SleepSteps(n int) {
	s, t := current()
	if t == nil || mode.Load() != ModeSim {
		return
	}
	t.stepSleep = n
	t.free = 0
	s.park(t, "step-sleep")
}

var racePerturb sync.Map // goid -> *splitmix

func raceYield() {
	id := goid()
	v, ok := racePerturb.Load(id)
	if !ok {
		v = &splitmix{s: Mix(raceSeed.Load(), id)}
		racePerturb.Store(id, v)
	}
	if v.(*splitmix).next()%16 == 0 {
		runtime.Gosched()
	}
}

// Lock replaces X.Lock() in instrumented files.
func Lock(m sync.Locker, label string) {
	if mode.Load() != ModeSim {
		m.Lock()
		return
	}
	s, t := current()
	if t == nil {
		m.Lock()
		return
	}
	if _, isRW := m.(RWLocker); isRW && s.AwaitReader > 0 {
		for i := 0; i < s.AwaitReader; i++ {
			s.heldMu.Lock()
			n := len(s.rw(m).readers)
			s.heldMu.Unlock()
			if n > 0 {
				s.R.Probe("writer-arrived-while-a-reader-held-the-lock")
				break
			}
			t.blockedOn = nil
			t.free = 0
			s.park(t, label+":await-reader")
		}
	}
	for {
		t.blockedOn = nil
		if !s.writable(m, t, true) { // (also when t itself holds it: Go mutexes are not reentrant)
			t.blockedOn = m
		}
		t.free = 0
		s.park(t, label)
		if s.writable(m, t, false) {
			break
		}
	}
	s.heldMu.Lock()
	s.held[m] = t
	if st := s.rwStates[m]; st != nil {
		delete(st.waiting, t)
	}
	if _, isRW := m.(RWLocker); isRW {
		if s.writeLockedBy == nil {
			s.writeLockedBy = map[sync.Locker]string{}
		}
		s.writeLockedBy[m] = t.Name
	}
	s.heldMu.Unlock()
	t.blockedOn = nil
	m.Lock() // cannot block: every holder registers here
}

// Unlock replaces X.Unlock() in instrumented files.
func Unlock(m sync.Locker, label string) {
	if mode.Load() == ModeSim {
		if s, t := current(); t != nil {
			s.heldMu.Lock()
			if s.held[m] == t {
				delete(s.held, m)
			}
			s.heldMu.Unlock()
		}
	}
	m.Unlock()
}

// RWLocker is what sync.RWMutex offers.
type RWLocker interface {
	sync.Locker
	RLock()
	RUnlock()
}

type rwState struct {
	readers map[*Task]int
	waiting map[*Task]bool // writers waiting: they block new readers, as in sync.RWMutex
}

func (s *Sched) rw(m sync.Locker) *rwState {
	if s.rwStates == nil {
		s.rwStates = map[sync.Locker]*rwState{}
	}
	st := s.rwStates[m]
	if st == nil {
		st = &rwState{readers: map[*Task]int{}, waiting: map[*Task]bool{}}
		s.rwStates[m] = st
	}
	return st
}

// RLock replaces X.RLock(): readers share the lock, but - as with sync.RWMutex - a
// waiting writer blocks new readers (which is what makes recursive read locking deadlock).
func RLock(m RWLocker, label string) {
	if mode.Load() != ModeSim {
		m.RLock()
		return
	}
	s, t := current()
	if t == nil {
		m.RLock()
		return
	}
	s.heldMu.Lock()
	if s.rw(m).readers[t] > 0 && s.RecursiveRLock == "" {
		// Recursive read locking: sync.RWMutex forbids it, because a writer that arrives between the two
		// RLock calls blocks the second one for ever. Recorded; the harness reports it when some other task
		// takes the write side of the same lock in this run (the deadlocking schedule then exists).
		s.RecursiveRLock = t.Name + " at " + label
		s.recursiveOn = m
	}
	s.heldMu.Unlock()
	for {
		s.heldMu.Lock()
		st := s.rw(m)
		blocked := s.held[m] != nil || len(st.waiting) > 0
		s.heldMu.Unlock()
		t.blockedOn = nil
		if blocked {
			t.blockedOn = m
			t.rblocked = true
		}
		t.free = 0
		s.park(t, label)
		s.heldMu.Lock()
		ok := s.held[m] == nil && len(st.waiting) == 0
		if ok {
			st.readers[t]++
		}
		s.heldMu.Unlock()
		if ok {
			break
		}
	}
	t.blockedOn, t.rblocked = nil, false
	m.RLock() // cannot block: no writer holds or waits
}

// RUnlock replaces X.RUnlock().
func RUnlock(m RWLocker, label string) {
	if mode.Load() == ModeSim {
		if s, t := current(); t != nil {
			s.heldMu.Lock()
			st := s.rw(m)
			if st.readers[t] > 0 {
				st.readers[t]--
				if st.readers[t] == 0 {
					delete(st.readers, t)
				}
			}
			s.heldMu.Unlock()
		}
	}
	m.RUnlock()
}

// Spawn replaces `go f(...)` in instrumented files.
func Spawn(label string, fn func()) {
	if mode.Load() == ModeSim {
		if s, t := current(); t != nil {
			s.Go("spawn:"+label, fn)
			return
		}
	}
	go fn()
}

// writable: no writer holds m and no reader holds it. With register, a task that finds the
// lock taken is recorded as a waiting writer (blocks new readers).
func (s *Sched) writable(m sync.Locker, t *Task, register bool) bool {
	s.heldMu.Lock()
	defer s.heldMu.Unlock()
	free := s.held[m] == nil
	if st := s.rwStates[m]; st != nil && len(st.readers) > 0 {
		free = false
	}
	if !free && register {
		s.rw(m).waiting[t] = true
	}
	return free
}

// readable: no writer holds m and no writer waits for it.
func (s *Sched) readable(m sync.Locker) bool {
	s.heldMu.Lock()
	defer s.heldMu.Unlock()
	if s.held[m] != nil {
		return false
	}
	if st := s.rwStates[m]; st != nil && len(st.waiting) > 0 {
		return false
	}
	return true
}

func (s *Sched) holder(m sync.Locker) *Task {
	s.heldMu.Lock()
	defer s.heldMu.Unlock()
	return s.held[m]
}

func (s *Sched) drain() {
	for {
		select {
		case t := <-s.parkCh:
			s.note(t)
		default:
			return
		}
	}
}

func (s *Sched) note(t *Task) {
	if t.done {
		if !t.finished {
			t.finished = true
			t.parked = false
			t.wake = nil
			t.Label = "done"
			s.live--
		}
		return
	}
	t.parked = true
}

func (s *Sched) runnable() []*Task {
	var out []*Task
	for _, t := range s.tasks {
		if !t.parked || t.wake == nil {
			continue
		}
		if t.stepSleep > 0 || t.stalled > 0 {
			continue
		}
		if !t.stallTill.IsZero() {
			if time.Now().Before(t.stallTill) {
				continue
			}
			t.stallTill = time.Time{}
		}
		if t.blockedOn != nil {
			if t.rblocked {
				if !s.readable(t.blockedOn) {
					continue
				}
			} else if !s.writable(t.blockedOn, t, false) {
				continue
			}
		}
		out = append(out, t)
	}
	sort.Slice(out, func(i, j int) bool { return out[i].ID < out[j].ID })
	return out
}

func (s *Sched) sleepers() (n int, min int) {
	min = 1 << 30
	for _, t := range s.tasks {
		if t.parked && t.wake != nil {
			d := t.stepSleep
			if t.stalled > d {
				d = t.stalled
			}
			if d > 0 {
				n++
				if d < min {
					min = d
				}
			}
		}
	}
	return
}

func (s *Sched) tick(n int) {
	for _, t := range s.tasks {
		if t.stepSleep > 0 {
			t.stepSleep -= n
			if t.stepSleep < 0 {
				t.stepSleep = 0
			}
		}
		if t.stalled > 0 {
			t.stalled -= n
			if t.stalled < 0 {
				t.stalled = 0
			}
		}
	}
}

// Stall holds task t back for n steps (slow writer / slow client fault).
func (s *Sched) Stall(t *Task, n int) { t.stalled = n }

// StallFor holds task t back for d of simulated time (the other tasks and the clock go on).
func (s *Sched) StallFor(t *Task, d time.Duration) { t.stallTill = time.Now().Add(d) }

// timeStalled: the earliest instant at which a task held back by StallFor may go on (zero if none is held).
func (s *Sched) timeStalled() time.Time {
	var min time.Time
	for _, t := range s.tasks {
		if t.parked && t.wake != nil && !t.stallTill.IsZero() && (min.IsZero() || t.stallTill.Before(min)) {
			min = t.stallTill
		}
	}
	return min
}

func (s *Sched) release(t *Task) {
	t.parked = false
	if s.last != nil && s.last != t {
		s.Switches++
		s.sigHash = Mix(s.sigHash, uint64(t.ID), HashString(t.Label))
		// which labels are other tasks parked at while this one runs?
		for _, o := range s.tasks {
			if o != t && o.parked && o.wake != nil && o.stepSleep == 0 {
				s.Served[o.Label]++
			}
		}
	}
	s.last = t
	s.Steps++
	t.Steps++
	if s.MaxFree > 0 {
		t.free = s.R.Draw(s.MaxFree + 1)
	}
	s.tick(1)
	t.wake <- struct{}{}
}

// Signature identifies the interleaving (sequence of context switches).
func (s *Sched) Signature() uint64 { return Mix(s.sigHash, uint64(s.Switches)) }

// Run is the scheduler loop; call it on the root goroutine of the bubble.
// It returns when every task has finished, or sets Deadlock.
func (s *Sched) Run() {
	for s.live > 0 {
		synctest.Wait()
		s.drain()
		if s.live == 0 || s.abort.Load() {
			break
		}
		if s.Steps > s.MaxSteps {
			s.Deadlock = fmt.Sprintf("step budget %d exhausted", s.MaxSteps)
			break
		}
		if s.Between != nil {
			s.Between(s)
		}
		run := s.runnable()
		nSleep, minSleep := s.sleepers()
		nParked := 0
		for _, t := range s.tasks {
			if t.parked && t.wake != nil {
				nParked++
			}
		}
		blockedInLib := s.live - nParked
		switch {
		case len(run) > 0:
			// optionally let fake time pass instead (only if somebody waits for time/IO)
			var t *Task
			if s.last != nil && s.last.parked && s.last.wake != nil && s.R.Draw(100) < s.Sticky {
				for _, c := range run {
					if c == s.last {
						t = c
					}
				}
			}
			if t == nil {
				t = run[s.R.Draw(len(run))]
			}
			s.release(t)
		case nSleep > 0 && (blockedInLib == 0 || s.R.Chance(1, 2)):
			s.tick(minSleep) // fast-forward the step clock
		case blockedInLib > 0:
			// everybody is blocked in a library call (pipe, timer): let fake time advance
			wait := 24 * time.Hour
			if nSleep > 0 {
				wait = 50 * time.Millisecond // step-clock sleepers exist: do not let the fake clock run away
			}
			held := s.timeStalled()
			if !held.IsZero() {
				if d := time.Until(held); d < wait {
					wait = d
				}
				if wait < time.Millisecond {
					wait = time.Millisecond
				}
			}
			// A task that parks and the end of the wait can fall on the same simulated instant (a deadline inside
			// the code under test and this timer are both multiples of 50 ms): which select case wins would then
			// be the runtime's choice. So the select only waits; what happened is read off the state afterwards.
			liveBefore := s.live
			until := time.Now().Add(wait)
			tm := time.NewTimer(wait)
			select {
			case t := <-s.parkCh:
				s.note(t)
			case <-tm.C:
			}
			tm.Stop()
			synctest.Wait() // whatever woke at this instant has parked, finished or blocked again
			s.drain()
			if time.Now().Before(until) || len(s.runnable()) > 0 || s.live != liveBefore {
				continue // a task moved
			}
			if nSleep > 0 {
				s.tick(minSleep)
				continue
			}
			if !held.IsZero() {
				continue // a task held back for a while may go on now
			}
			s.Deadlock = "stall: no task became runnable within 24 h of simulated time; " + s.Where()
			s.abortAll()
			return
		default:
			if held := s.timeStalled(); !held.IsZero() {
				if d := time.Until(held); d > 0 {
					time.Sleep(d)
				}
				continue
			}
			s.Deadlock = "deadlock: every task is blocked on a lock; " + s.Where()
			s.abortAll()
			return
		}
	}
	if s.Deadlock != "" {
		s.abortAll()
	}
}

// TaskByPrefix returns the first live task whose name starts with prefix.
func (s *Sched) TaskByPrefix(prefix string) *Task {
	for _, t := range s.tasks {
		if t.wake != nil && len(t.Name) >= len(prefix) && t.Name[:len(prefix)] == prefix {
			return t
		}
	}
	return nil
}

// ParkedAt reports whether some task is parked at a label with the given substring.
func (s *Sched) ParkedAt(sub string) bool {
	for _, t := range s.tasks {
		if t.parked && t.wake != nil && contains(t.Label, sub) {
			return true
		}
	}
	return false
}

func contains(s, sub string) bool {
	for i := 0; i+len(sub) <= len(s); i++ {
		if s[i:i+len(sub)] == sub {
			return true
		}
	}
	return false
}

// Where lists the tasks and the labels they are parked at.
func (s *Sched) Where() string {
	out := ""
	for _, t := range s.tasks {
		st := "blocked-in-library"
		if t.wake == nil {
			st = "done"
		} else if t.parked {
			st = "parked"
			if t.blockedOn != nil {
				st = "waiting-for-lock"
			}
		}
		out += fmt.Sprintf("[%s %s at %s] ", t.Name, st, t.Label)
	}
	return out
}

func (s *Sched) abortAll() {
	s.abort.Store(true)
	for _, t := range s.tasks {
		if t.parked && t.wake != nil {
			t.parked = false
			select {
			case t.wake <- struct{}{}:
			default:
			}
		}
	}
}

// Abort ends the run early (violation found): parked tasks are released with the
// abort flag; tasks blocked in library calls abort at their next yield.
func (s *Sched) Abort() { s.abortAll() }

// Fail stops the run with a liveness verdict (reported through Deadlock).
func (s *Sched) Fail(msg string) {
	if s.Deadlock == "" {
		s.Deadlock = msg
	}
	s.abortAll()
}

// Aborted reports whether the scheduler was told to stop.
func (s *Sched) Aborted() bool { return s.abort.Load() }

// RecursiveRLockWriter returns the name of a task that write-locked the mutex on which a recursive read
// lock was seen ("" if there was no recursion or no writer).
func (s *Sched) RecursiveRLockWriter() string {
	s.heldMu.Lock()
	defer s.heldMu.Unlock()
	if s.RecursiveRLock == "" || s.recursiveOn == nil {
		return ""
	}
	return s.writeLockedBy[s.recursiveOn]
}
