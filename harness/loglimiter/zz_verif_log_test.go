//go:build verif

package loglimiter

// Unit L.log (C20): the real LogLimiter with an injected (forward-only) clock;
// captured log output is compared line by line with R-log.

import (
	"bytes"
	"fmt"
	"log"
	"testing"
	"time"

	zz "github.com/TheCacophonyProject/thermal-recorder/zzverif"

	"verifsim"
)

func TestVerif(t *testing.T) {
	verifsim.Main(t, verifsim.Unit{
		Name: "L.log", Props: []string{"C20"}, Run: runLog,
		Rule:        "one case = seeded interval + history of (message, dt) with messages from a 3-letter alphabet issued through Print and through Printf (same format with different arguments, different formats with equal results) and dt in {0, 1ns, interval-1ns, interval, interval+1ns, random}; output captured after every call and compared with R-log; non-trivial = at least one suppressed and one re-printed repeat; distinct = interval class + decision string",
		Measure:     "c20 = (dt class of the arrival, same as last printed, printed)",
		Real:        []string{"loglimiter.LogLimiter (Print, Printf)", "standard log package writing to a captured buffer"},
		Stub:        []string{"clock (nowFunc replaced in-package by a simulated forward-only clock)"},
		Assumptions: []string{"time only moves forward (production subtracts time.Time values that carry a monotonic reading)"},
	})
}

func runLog(r *verifsim.Run) {
	interval := time.Duration(r.OneOf(1, 1000, int(time.Second), int(time.Minute), r.Range(1, 1e9)))
	lim := New(interval)
	clock := &zz.SimClock{T: time.Date(2021, 3, 14, 0, 0, 0, 0, time.UTC).Add(time.Duration(r.Draw(1000)) * time.Hour)}
	lim.nowFunc = clock.Now
	var buf bytes.Buffer
	oldOut, oldFlags := log.Writer(), log.Flags()
	log.SetOutput(&buf)
	log.SetFlags(0)
	defer func() { log.SetOutput(oldOut); log.SetFlags(oldFlags) }()
	model := &zz.LogModel{Interval: interval}
	n := r.Range(3, 60)
	var hist []byte
	suppressed, reprinted := 0, 0
	lastPrinted, printedAny := "", false
	for i := 0; i < n; i++ {
		var dt time.Duration
		cls := r.Draw(7)
		switch cls {
		case 0:
			dt = 0
		case 1:
			dt = 1
		case 2:
			dt = interval - 1
		case 3:
			dt = interval
		case 4:
			dt = interval + 1
		case 5:
			dt = time.Duration(r.Range(0, int(2*interval)))
		case 6:
			dt = interval / 2
		}
		if dt < 0 {
			dt = 0
		}
		clock.Advance(dt)
		letter := "abc%"[r.Pick(5, 2, 1, 1)]
		var msg string
		buf.Reset()
		switch r.Draw(6) {
		case 0:
			msg = string(letter)
			if letter == '%' {
				msg = []string{"100%", "50%d done", "%s", "a%vb", "%!"}[r.Draw(5)] // text that looks like a format
			}
			lim.Print(msg)
		case 1: // same format, argument decides the message
			msg = fmt.Sprintf("error: %v", string(letter))
			lim.Printf("error: %v", string(letter))
		case 2: // different formats, possibly equal results
			if r.Chance(1, 2) {
				msg = fmt.Sprintf("%s", string(letter))
				lim.Printf("%s", string(letter))
			} else {
				msg = fmt.Sprintf("%c", letter)
				lim.Printf("%c", letter)
			}
		case 3:
			msg = fmt.Sprintf("error: %v", string(letter))
			lim.Print(msg)
		case 4: // a format without operands, with and without an escaped per-cent sign; the empty format
			format := []string{string(letter), "", "disk 100%% full", "%%", string(letter) + "%%"}[r.Draw(5)]
			if letter == '%' && format == "%" {
				format = "%%"
			}
			msg = fmt.Sprintf(format)
			lim.Printf(format)
			r.Probe("printf-without-operands")
		case 5: // the empty message, and the text an operand-less format results in
			msg = []string{"", "", "disk 100% full", "%"}[r.Draw(4)]
			lim.Print(msg)
			if msg == "" {
				r.Probe("empty-message")
			}
		}
		want := model.Arrive(msg, clock.T)
		got := buf.String()
		same := printedAny && msg == lastPrinted
		r.Distinct("c20", fmt.Sprintf("dt%d:same%v:print%v", cls, same, want))
		switch {
		case want && got != msg+"\n":
			sig := "lost"
			if got != "" {
				sig = "modified"
			}
			if same {
				sig += ":repeat-after-interval"
			} else {
				sig += ":distinct-message"
			}
			r.Violate("C20", "C20.print", sig, "arrival %d (%q, %v after the previous arrival, interval %v, last printed %q): output %q, expected %q (history %s)", i, msg, dt, interval, lastPrinted, got, msg+"\n", hist)
			return
		case !want && got != "":
			r.Violate("C20", "C20.suppress", "", "arrival %d (%q, identical to the last printed message and inside the interval %v): output %q, expected nothing (history %s)", i, msg, interval, got, hist)
			return
		}
		if want {
			if same {
				reprinted++
				r.Probe("repeat-printed-after-interval")
				if dt == interval {
					r.Probe("arrival-exactly-at-interval")
				}
			}
			lastPrinted, printedAny = msg, true
			if letter == '%' {
				hist = append(hist, 'P')
			} else {
				hist = append(hist, letter-32)
			}
		} else {
			suppressed++
			r.Probe("repeat-suppressed")
			hist = append(hist, letter)
		}
	}
	r.SimTime(clock.T.Sub(time.Date(2021, 3, 14, 0, 0, 0, 0, time.UTC)) % (24 * time.Hour))
	r.Set("interval", interval.String())
	r.Set("decisions", string(hist))
	if suppressed > 0 && reprinted > 0 {
		r.Nontrivial(fmt.Sprintf("%v:%s", interval, hist))
	}
}
