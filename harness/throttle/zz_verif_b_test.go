//go:build verif

//go:debug asynctimerchan=0

package throttle

// World B: the real ThrottledRecorder + juju/ratelimit on a simulated monotonic
// clock, a fault-injecting base recorder (start failures) and a listener.
// Oracles (DESIGN §4 R-bucket, §5 C05/C06) use the *configuration* only, never
// the bucket object.

import (
	"errors"
	"fmt"
	"io"
	"log"
	"runtime"
	"strings"
	"sync/atomic"
	"testing"
	"testing/synctest"
	"time"

	config "github.com/TheCacophonyProject/go-config"
	"github.com/TheCacophonyProject/go-cptv/cptvframe"
	zz "github.com/TheCacophonyProject/thermal-recorder/zzverif"

	"verifsim"
)

func init() { log.SetOutput(io.Discard) }

func TestVerif(t *testing.T) {
	theTB = t
	verifsim.Main(t, verifsim.Unit{
		Name: "B.thr", Props: []string{"C05", "C06"}, Run: runB,
		Rule:        "one case = seeded throttle configuration (fps 1-60, bucket 1 s-20 min in whole seconds, min-refill 1 s-1 h, min+preview 1-20 s, incl. bucket < minimum clip) + seeded schedule of upstream sessions {Start, Write x k, Stop, CheckCanRecord} with clock advances from {0, sub-tick, frame period, seconds, minutes, hours} between calls and base-recorder start failures at seeded calls; non-trivial = at least one throttle cut or suppressed start and at least one forwarded write; distinct = configuration + compact call/outcome string",
		Measure:     "b.outcome = (kind of upstream call, outcome: forwarded / suppressed / cut / restarted / base start failed)",
		Real:        []string{"throttle.ThrottledRecorder", "juju/ratelimit.Bucket (v1.0.1)"},
		Stub:        []string{"monotonic clock (ratelimit.Clock seam)", "base recorder (tracing, start failures)", "ThrottledEventListener (counting)", "upstream caller (well-formed start/write/stop sessions as the motion processor issues them)"},
		Assumptions: []string{"clock only moves forward (monotonic reading in production)", "bucket-size in whole seconds (the code truncates)", "tolerance as stated in C05: 1% on the rate, 2 frames"},
	})
}

var errBaseStart = errors.New("injected base start failure")

type baseCall struct {
	op     byte
	err    bool
	bg     *cptvframe.Frame
	thresh uint16
	frame  *cptvframe.Frame
}

type baseRec struct {
	calls    []baseCall
	failAt   map[int]bool // ordinal of StartRecording calls that fail
	nStart   int
	checkErr error
}

func (b *baseRec) CheckCanRecord() error {
	b.calls = append(b.calls, baseCall{op: 'C', err: b.checkErr != nil})
	return b.checkErr
}
func (b *baseRec) StartRecording(bg *cptvframe.Frame, th uint16) error {
	f := b.failAt[b.nStart]
	b.nStart++
	b.calls = append(b.calls, baseCall{op: 'S', err: f, bg: bg, thresh: th})
	if f {
		return errBaseStart
	}
	return nil
}
func (b *baseRec) WriteFrame(f *cptvframe.Frame) error {
	b.calls = append(b.calls, baseCall{op: 'W', frame: f})
	return nil
}
func (b *baseRec) StopRecording() error {
	b.calls = append(b.calls, baseCall{op: 'X'})
	return nil
}

type countListener struct{ n atomic.Int64 }

func (l *countListener) WhenThrottled() { l.n.Add(1) }

// clocks of world B: the injected simulated clock, or - for the production constructor, which reads the
// real clock - the fake clock of a synctest bubble
type bClock interface {
	Now() time.Time
	Advance(d time.Duration)
}

type bubbleClock struct{}

func (bubbleClock) Now() time.Time { return time.Now() }
func (bubbleClock) Advance(d time.Duration) {
	if d > 0 {
		time.Sleep(d)
	}
}

// upstream call as observed
type upCall struct {
	op     byte
	t      time.Time
	err    bool
	base   []baseCall
	events int
	bg     *cptvframe.Frame
	thresh uint16
	frame  *cptvframe.Frame
}

type bCfg struct {
	fps, bucketS, refillS, minS int
	refillMs                    int // min-refill need not be a whole number of seconds
}

func (c bCfg) C() float64   { return float64(c.bucketS * c.fps) }
func (c bCfg) M() int       { return c.minS * c.fps }
func (c bCfg) rho() float64 { return float64(c.minS*c.fps) / c.refill().Seconds() }
func (c bCfg) refill() time.Duration {
	return time.Duration(c.refillS)*time.Second + time.Duration(c.refillMs)*time.Millisecond
}

func runB(r *verifsim.Run) {
	var c bCfg
	c.fps = r.OneOf(1, 2, 3, 5, 9, 9, 25, 60)
	c.bucketS = r.OneOf(1, 2, 3, 5, 10, 30, r.Range(1, 60), r.Range(60, 1200))
	c.refillS = r.OneOf(1, 2, 5, 20, 60, r.Range(1, 120), r.Range(120, 3600))
	c.refillMs = r.OneOf(0, 0, 0, 100, 500, 900, r.Range(1, 999))
	c.minS = r.OneOf(1, 2, 3, 5, 10, r.Range(1, 20))
	r.Set("cfg", fmt.Sprintf("fps%d bucket%ds refill%v minclip%ds (C=%v frames, M=%d frames, rate %.4f frames/s)", c.fps, c.bucketS, c.refill(), c.minS, c.C(), c.M(), c.rho()))
	cam := zz.Cam{W: 2, H: 2, Fps: c.fps}
	// one run in five builds the throttle with the production constructor (real clock, as main.go does) inside
	// a synctest bubble; events are then only counted once everything has come to rest, so that a listener
	// that delivers asynchronously is judged by the same "exactly one per suppressed start or cut"
	prod := r.Chance(1, 5)
	if prod {
		r.Probe("production-constructor-in-bubble")
		old := runtime.GOMAXPROCS(1) // one P: which goroutine runs next does not depend on the machine
		defer runtime.GOMAXPROCS(old)
		// a goroutine of the throttle still waiting for work when the bubble ends (an asynchronous listener,
		// say) is no fault; anything else that panics is the harness's
		if msg := bubbleB(func() { runBBody(r, c, cam, bubbleClock{}, true) }); msg != "" && !strings.Contains(msg, "blocked goroutines remain") {
			panic(msg)
		}
		return
	}
	runBBody(r, c, cam, &zz.SimClock{T: time.Date(2021, 3, 14, 0, 0, 0, 0, time.UTC)}, false)
}

func bubbleB(f func()) (panicked string) {
	done := make(chan struct{})
	go func() {
		defer close(done)
		defer func() {
			if p := recover(); p != nil {
				panicked = fmt.Sprint(p)
			}
		}()
		synctest.Test(theTB, func(t *testing.T) { f() })
	}()
	<-done
	return panicked
}

var theTB *testing.T

func runBBody(r *verifsim.Run, c bCfg, cam zz.Cam, clock bClock, prod bool) {
	start := clock.Now()
	base := &baseRec{failAt: map[int]bool{}}
	if r.Chance(1, 2) {
		for i, n := 0, r.Range(1, 5); i < n; i++ {
			base.failAt[r.Draw(40)] = true
		}
	}
	lis := &countListener{}
	tc := &config.ThermalThrottler{Activate: true, BucketSize: time.Duration(c.bucketS) * time.Second, MinRefill: c.refill()}
	var thr *ThrottledRecorder
	if prod {
		thr = NewThrottledRecorder(base, tc, c.minS, lis, cam)
	} else {
		thr = NewThrottledRecorderWithClock(base, tc, c.minS, lis, clock.(*zz.SimClock), cam)
	}

	var ups []upCall
	call := func(op byte, bg *cptvframe.Frame, th uint16, f *cptvframe.Frame) bool {
		nb, ne := len(base.calls), lis.n.Load()
		var err error
		switch op {
		case 'S':
			err = thr.StartRecording(bg, th)
		case 'W':
			err = thr.WriteFrame(f)
		case 'X':
			err = thr.StopRecording()
		case 'C':
			err = thr.CheckCanRecord()
		}
		ev := int(lis.n.Load() - ne)
		if prod {
			ev = -1 // not attributed to calls
		}
		ups = append(ups, upCall{op: op, t: clock.Now(), err: err != nil, base: append([]baseCall(nil), base.calls[nb:]...), events: ev, bg: bg, thresh: th, frame: f})
		return err == nil
	}
	period := time.Second / time.Duration(c.fps)
	tick := time.Duration(float64(time.Second) / c.rho())
	adv := func() {
		var d time.Duration
		switch r.Pick(2, 2, 3, 3, 2, 1) {
		case 0:
			d = 0
		case 1:
			d = time.Duration(r.Range(1, int(tick/2+1)))
		case 2:
			d = period
		case 3:
			d = time.Duration(r.Range(1, 30)) * time.Second
		case 4:
			d = time.Duration(r.Range(1, 30)) * time.Minute
		case 5:
			d = time.Duration(r.Range(1, 12)) * time.Hour
		}
		clock.Advance(d)
	}
	frames := []*cptvframe.Frame{cptvframe.NewFrame(cam), cptvframe.NewFrame(cam), cptvframe.NewFrame(cam)}
	budget := r.Range(50, 2500)
	nWrites := 0
	for nWrites < budget {
		if r.Chance(1, 6) {
			if r.Chance(1, 4) {
				base.checkErr = errors.New("disk")
			} else {
				base.checkErr = nil
			}
			call('C', nil, 0, nil)
		}
		bg := cptvframe.NewFrame(cam)
		th := uint16(r.Draw(65536))
		ok := call('S', bg, th, nil)
		if ok {
			k := r.OneOf(1, 2, c.M()-1, c.M(), c.M()+1, int(c.C())+r.Range(-2, 3), r.Range(1, 200), r.Range(1, 1200))
			if k < 1 {
				k = 1
			}
			pace := r.Draw(3)
			for i := 0; i < k && nWrites < budget; i++ {
				switch pace {
				case 0:
					clock.Advance(period)
				case 1:
					if r.Chance(1, 20) {
						adv()
					} else {
						clock.Advance(period)
					}
				}
				call('W', nil, 0, frames[i%3])
				nWrites++
			}
			call('X', nil, 0, nil)
		}
		nWrites++ // failed starts also consume budget so that the loop ends
		adv()
	}
	r.SimTime(clock.Now().Sub(start))
	total := -1
	if prod {
		synctest.Wait()
		total = int(lis.n.Load())
	}
	checkThrottle(r, c, ups, total)
}

// checkThrottle evaluates the C05 and C06 rules on the observed calls.
func checkThrottle(r *verifsim.Run, c bCfg, ups []upCall, totalEvents int) {
	C, M, rho := c.C(), c.M(), c.rho()
	var wt []time.Time // times of forwarded writes
	baseOpen := false
	fileLen := 0
	lo := C // lower bound of the budget: clamped at C, refilled at 0.99*rho
	var loT time.Time
	if len(ups) > 0 {
		loT = ups[0].t
	}
	var lastBg *cptvframe.Frame
	var lastTh uint16
	haveStart := false
	upOpen := false // upstream session open (a Start returned nil and no Stop yet)
	nCut, nSupp, nFwd, nRestart := 0, 0, 0, 0
	var sig []byte

	fullClipAvailable := func(now time.Time) (bool, string) {
		if float64(M) > C {
			return false, fmt.Sprintf("minimum clip %d exceeds the bucket capacity %v", M, C)
		}
		w := 0
		for j := len(wt) - 1; j >= 0; j-- {
			w++
			dt := now.Sub(wt[j]).Seconds()
			if float64(w+M) > C+1.01*rho*dt+2 {
				return false, fmt.Sprintf("%d frames were forwarded in the last %.3fs; with a clip of %d that exceeds capacity %v + refill %.2f + 2", w, dt, M, C, 1.01*rho*dt)
			}
			if 1.01*rho*dt > float64(w+M)+C {
				break
			}
		}
		return true, ""
	}

	for i := range ups {
		u := &ups[i]
		// advance the lower-bound bucket
		lo += 0.99 * rho * u.t.Sub(loT).Seconds()
		if lo > C {
			lo = C
		}
		loT = u.t
		certain := func(n float64) bool { return lo-2 >= n }

		nS, nW, nX := 0, 0, 0
		startFailed := false
		if u.op == 'S' {
			lastBg, lastTh, haveStart = u.bg, u.thresh, true
		}
		for _, b := range u.base {
			switch b.op {
			case 'S':
				nS++
				if baseOpen {
					r.Violate("C06", "C06.pairing", "start-while-open", "upstream call %d (%c): base StartRecording while a base file is open", i, u.op)
					if r.Failed() {
						return
					}
				}
				if !haveStart || b.bg != lastBg || b.thresh != lastTh {
					r.Violate("C06", "C06.args", "start", "upstream call %d (%c): base StartRecording got threshold %d (same background object: %v); the latest upstream start passed threshold %d", i, u.op, b.thresh, b.bg == lastBg, lastTh)
					if r.Failed() {
						return
					}
				}
				if ok, why := fullClipAvailable(u.t); !ok {
					kind := "start"
					if u.op == 'W' {
						kind = "restart"
					}
					r.Violate("C06", "C06.full-clip", kind, "upstream call %d (%c) at %v: a base file was started without a full minimum clip of budget: %s", i, u.op, u.t.Format("15:04:05.000"), why)
					if r.Failed() {
						return
					}
				}
				if b.err {
					startFailed = true
				} else {
					baseOpen = true
					fileLen = 0
				}
			case 'W':
				nW++
				if !baseOpen {
					r.Violate("C06", "C06.pairing", "write-while-closed", "upstream call %d (%c): base WriteFrame with no base file open", i, u.op)
					if r.Failed() {
						return
					}
				}
				if b.frame != u.frame {
					r.Violate("C06", "C06.args", "frame", "upstream call %d: base WriteFrame got a different frame than the upstream call", i)
					if r.Failed() {
						return
					}
				}
				// C05: every interval ending at this write
				wt = append(wt, u.t)
				n := len(wt)
				for j := n - 1; j >= 0; j-- {
					cnt := float64(n - j)
					dt := u.t.Sub(wt[j]).Seconds()
					if cnt > C+1.01*rho*dt+2 {
						r.Violate("C05", "C05.bound", fmt.Sprintf("over-by-%d", minInt(int(cnt-(C+1.01*rho*dt+2))+1, 3)), "%v frames reached storage within %.3fs (forwarded writes %d..%d); bound is capacity %v + 1.01 x %.4f frames/s x %.3fs + 2 = %.2f", cnt, dt, j, n-1, C, rho, dt, C+1.01*rho*dt+2)
						return
					}
					if 1.01*rho*dt > cnt+1 { // older writes cannot violate: refill alone covers them
						break
					}
				}
				lo--
				fileLen++
			case 'X':
				nX++
				if baseOpen {
					baseOpen = false
				} else {
					r.Violate("C06", "C06.pairing", "stop-while-closed", "upstream call %d (%c): base StopRecording with no base file open", i, u.op)
					if r.Failed() {
						return
					}
				}
			}
		}
		switch u.op {
		case 'C':
			if len(u.base) != 1 || u.base[0].op != 'C' || u.base[0].err != u.err {
				r.Violate("C06", "C06.transparent", "check", "upstream CheckCanRecord (call %d) was not passed through to the base recorder unchanged (base calls %d, result %v)", i, len(u.base), u.err)
				if r.Failed() {
					return
				}
			}
		case 'S':
			switch {
			case nS == 1 && startFailed:
				sig = append(sig, 'f')
				if !u.err {
					r.Violate("C06", "C06.transparent", "start-error-swallowed", "upstream start %d: the base start failed but the throttle reported success", i)
					if r.Failed() {
						return
					}
				}
				if u.events > 0 || (u.events != 0 && totalEvents < 0) {
					r.Violate("C06", "C06.events", "on-failed-start", "upstream start %d failed in the base recorder but %d 'throttled' events were emitted", i, u.events)
					if r.Failed() {
						return
					}
				}
				r.Probe("base-start-failed")
			case nS == 1:
				sig = append(sig, 'S')
				nFwd++
				upOpen = true
				if u.err || u.events > 0 {
					r.Violate("C06", "C06.events", "on-forwarded-start", "upstream start %d was forwarded but returned err=%v with %d events", i, u.err, u.events)
					if r.Failed() {
						return
					}
				}
			case nS == 0:
				sig = append(sig, 's')
				nSupp++
				upOpen = true
				if certain(float64(M)) && float64(M) <= C {
					r.Violate("C06", "C06.transparent", "start-suppressed", "upstream start %d at %v was suppressed although at least %.1f frames of budget are certainly available (minimum clip %d)", i, u.t.Format("15:04:05.000"), lo-2, M)
					if r.Failed() {
						return
					}
				}
				if u.err {
					r.Violate("C06", "C06.transparent", "suppressed-start-error", "suppressed start %d returned an error", i)
					if r.Failed() {
						return
					}
				}
				if u.events >= 0 && u.events != 1 {
					r.Violate("C06", "C06.events", "suppressed-start", "upstream start %d was suppressed: %d 'throttled' events, expected exactly one", i, u.events)
					if r.Failed() {
						return
					}
				}
				r.Probe("start-suppressed")
			}
			if nW != 0 || nX != 0 {
				r.Violate("C06", "C06.pairing", "start-side-effects", "upstream start %d caused base writes/stops", i)
				if r.Failed() {
					return
				}
			}
		case 'W':
			switch {
			case nS == 1 && startFailed:
				sig = append(sig, 'F')
				if u.events > 0 || (u.events != 0 && totalEvents < 0) {
					r.Violate("C06", "C06.events", "on-failed-start", "mid-trigger restart in call %d failed in the base recorder but %d events were emitted", i, u.events)
					if r.Failed() {
						return
					}
				}
				r.Probe("base-restart-failed")
			case nS == 1 && nW == 1:
				sig = append(sig, 'R')
				nRestart++
				r.Probe("mid-trigger-restart")
				if u.events > 0 || (u.events != 0 && totalEvents < 0) {
					r.Violate("C06", "C06.events", "restart", "mid-trigger restart in call %d emitted %d events", i, u.events)
					if r.Failed() {
						return
					}
				}
			case nW == 1 && nX == 0:
				if len(sig) == 0 || sig[len(sig)-1] != 'w' {
					sig = append(sig, 'w')
				}
				if u.events > 0 || (u.events != 0 && totalEvents < 0) {
					r.Violate("C06", "C06.events", "per-frame", "forwarded write (call %d) emitted %d 'throttled' events", i, u.events)
					if r.Failed() {
						return
					}
				}
			case nW == 0 && nX == 1:
				sig = append(sig, 'c')
				nCut++
				r.Probe("throttle-cut")
				if certain(1) {
					r.Violate("C06", "C06.transparent", "cut-within-budget", "the file was cut in call %d at %v although at least %.1f frames of budget are certainly available", i, u.t.Format("15:04:05.000"), lo-2)
					if r.Failed() {
						return
					}
				}
				if fileLen < M {
					r.Violate("C06", "C06.cut-short", "", "the file cut by the throttle in call %d holds %d frames, a minimum clip is %d", i, fileLen, M)
					if r.Failed() {
						return
					}
				}
				if u.events >= 0 && u.events != 1 {
					r.Violate("C06", "C06.events", "cut", "throttle cut in call %d: %d 'throttled' events, expected exactly one", i, u.events)
					if r.Failed() {
						return
					}
				}
			case nS == 0 && nW == 0 && nX == 0:
				if len(sig) == 0 || sig[len(sig)-1] != '-' {
					sig = append(sig, '-')
				}
				// suppressed frame: must not happen while the base file is open, nor while a full clip is certainly available
				if baseOpen {
					r.Violate("C06", "C06.transparent", "frame-dropped", "write %d was not forwarded although a base file is open", i)
					if r.Failed() {
						return
					}
				}
				if certain(float64(M)+1) && float64(M) <= C && upOpen {
					r.Violate("C06", "C06.transparent", "restart-missed", "write %d at %v was dropped although at least %.1f frames of budget are certainly available (minimum clip %d)", i, u.t.Format("15:04:05.000"), lo-2, M)
					if r.Failed() {
						return
					}
				}
				if u.events > 0 || (u.events != 0 && totalEvents < 0) {
					r.Violate("C06", "C06.events", "per-frame", "suppressed write (call %d) emitted %d 'throttled' events (one per suppressed start or cut, never one per frame)", i, u.events)
					if r.Failed() {
						return
					}
				}
				r.Probe("frame-suppressed")
			default:
				r.Violate("C06", "C06.pairing", "odd-write", "upstream write %d caused base calls S=%d W=%d X=%d", i, nS, nW, nX)
				if r.Failed() {
					return
				}
			}
		case 'X':
			sig = append(sig, 'x')
			upOpen = false
			if nS != 0 || nW != 0 || u.events > 0 {
				r.Violate("C06", "C06.pairing", "stop-side-effects", "upstream stop %d caused base starts/writes/events", i)
				if r.Failed() {
					return
				}
			}
			if baseOpen {
				r.Violate("C06", "C06.pairing", "unclosed", "upstream stop %d left the base file open", i)
				if r.Failed() {
					return
				}
			}
		}
		r.Distinct("b.outcome", fmt.Sprintf("%c:%d%d%d:%v:%d", u.op, nS, nW, nX, u.err, u.events))
	}
	if totalEvents >= 0 {
		if totalEvents != nSupp+nCut {
			sig := "total:missing"
			if totalEvents > nSupp+nCut {
				sig = "total:spurious"
			}
			r.Violate("C06", "C06.events", sig, "production constructor: %d starts were suppressed and %d files cut, but the listener had been told %d times once everything had come to rest (exactly one 'throttled' event per suppressed start or cut)", nSupp, nCut, totalEvents)
		} else if totalEvents > 0 {
			r.Probe("events-counted-at-rest")
		}
	}
	r.Count("forwarded_writes", len(wt))
	r.Count("upstream_calls", len(ups))
	if (nCut > 0 || nSupp > 0) && len(wt) > 0 {
		s := string(sig)
		if len(s) > 120 {
			s = s[:120]
		}
		r.Nontrivial(fmt.Sprintf("%+v:%s", c, s))
	}
	if float64(M) > C {
		r.Probe("bucket-smaller-than-minimum-clip")
	}
	_ = nFwd
	_ = nRestart
}

func minInt(a, b int) int {
	if a < b {
		return a
	}
	return b
}
