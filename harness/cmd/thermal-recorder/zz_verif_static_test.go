//go:build verif

package main

// Static side check for C14's last clause ("both daemons agree on the marker and the
// header keys"): leptond's sendCameraSpecs needs SPI hardware and cannot be executed, so
// the marker constant and the header keys are read from the source of cmd/leptond (AST)
// and compared with what the recorder reads. Labelled static, not simulation.

import (
	"reflect"
	"bufio"
	"bytes"
	"go/ast"
	"go/parser"
	"go/token"
	"os"
	"path/filepath"
	"sort"
	"strconv"
	"strings"

	"github.com/TheCacophonyProject/thermal-recorder/headers"

	"verifsim"
)

func bufioReader(b []byte) *bufio.Reader { return bufio.NewReader(bytes.NewReader(b)) }

func repoRoot() string {
	if d := os.Getenv("VERIF_REPO"); d != "" {
		return d
	}
	return "/repo"
}

func checkDaemonsAgree(r *verifsim.Run) {
	fset := token.NewFileSet()
	f, err := parser.ParseFile(fset, filepath.Join(repoRoot(), "cmd/leptond/main.go"), nil, 0)
	if err != nil {
		r.Violate("C14", "C14.agree", "parse", "cannot parse cmd/leptond/main.go: %v", err)
		return
	}
	marker := ""
	var keys []string
	ast.Inspect(f, func(n ast.Node) bool {
		switch x := n.(type) {
		case *ast.ValueSpec:
			for i, nm := range x.Names {
				if nm.Name == "clearBuffer" && i < len(x.Values) {
					if bl, ok := x.Values[i].(*ast.BasicLit); ok {
						marker, _ = strconv.Unquote(bl.Value)
					}
				}
			}
		case *ast.FuncDecl:
			if x.Name.Name != "sendCameraSpecs" {
				return true
			}
			ast.Inspect(x, func(m ast.Node) bool {
				if cl, ok := m.(*ast.CompositeLit); ok {
					for _, el := range cl.Elts {
						if kv, ok := el.(*ast.KeyValueExpr); ok {
							if se, ok := kv.Key.(*ast.SelectorExpr); ok {
								if id, ok := se.X.(*ast.Ident); ok && id.Name == "headers" {
									keys = append(keys, se.Sel.Name)
								}
							}
						}
					}
				}
				return true
			})
		}
		return true
	})
	if marker != clearBuffer {
		r.Violate("C14", "C14.agree", "marker", "leptond sends the reset marker %q, the recorder expects %q", marker, clearBuffer)
		return
	}
	if len(clearBuffer) != 5 {
		r.Violate("C14", "C14.agree", "marker-length", "the recorder peeks 5 bytes but its marker %q has %d", clearBuffer, len(clearBuffer))
		return
	}
	// the recorder reads these keys (by constant name); leptond must send exactly them
	want := []string{"XResolution", "YResolution", "FPS", "FrameSize", "Brand", "Model", "Serial", "Firmware"}
	sort.Strings(want)
	sort.Strings(keys)
	if strings.Join(want, ",") != strings.Join(keys, ",") {
		r.Violate("C14", "C14.agree", "header-keys", "leptond's sendCameraSpecs sends the keys {%s}, the recorder reads {%s}", strings.Join(keys, ","), strings.Join(want, ","))
		return
	}
	// and the constants must be pairwise distinct, or two fields would collide in the YAML map
	vals := map[string]string{headers.XResolution: "X", headers.YResolution: "Y", headers.FPS: "F", headers.FrameSize: "S", headers.Brand: "B", headers.Model: "M", headers.Serial: "N", headers.Firmware: "W"}
	if len(vals) != 8 {
		r.Violate("C14", "C14.agree", "header-keys", "header key constants are not pairwise distinct")
	}
	r.Probe("static-daemon-agreement-checked")
}

// checkCleanupWired: runMain is not executed by the simulation (unix listener, periph host
// init, D-Bus); the harness re-enacts its sequence "deleteTempFiles(conf.OutputDir), then one
// handleConn per connection". This static check keeps the re-enactment honest: runMain must
// still call deleteTempFiles(conf.OutputDir) before its accept loop.
var cleanupWired struct {
	done bool
	msg  string
}

func checkCleanupWired(r *verifsim.Run) {
	if !cleanupWired.done {
		cleanupWired.done = true
		fset := token.NewFileSet()
		f, err := parser.ParseFile(fset, filepath.Join(repoRoot(), "cmd/thermal-recorder/main.go"), nil, 0)
		if err != nil {
			cleanupWired.msg = "cannot parse cmd/thermal-recorder/main.go: " + err.Error()
		} else {
			found, loopPos, callPos := false, token.NoPos, token.NoPos
			for _, d := range f.Decls {
				fd, ok := d.(*ast.FuncDecl)
				if !ok || fd.Name.Name != "runMain" || fd.Body == nil {
					continue
				}
				for _, st := range fd.Body.List {
					if fs, ok := st.(*ast.ForStmt); ok && loopPos == token.NoPos {
						loopPos = fs.Pos()
					}
					ast.Inspect(st, func(n ast.Node) bool {
						if c, ok := n.(*ast.CallExpr); ok {
							if id, ok := c.Fun.(*ast.Ident); ok && id.Name == "deleteTempFiles" && len(c.Args) >= 1 {
								if se, ok := c.Args[0].(*ast.SelectorExpr); ok && se.Sel.Name == "OutputDir" {
									found = true
									if callPos == token.NoPos {
										callPos = c.Pos()
									}
								}
							}
						}
						return true
					})
				}
			}
			switch {
			case !found:
				cleanupWired.msg = "runMain no longer calls deleteTempFiles(conf.OutputDir): no start-up clean-up happens"
			case loopPos != token.NoPos && callPos > loopPos:
				cleanupWired.msg = "runMain calls deleteTempFiles only inside/after its accept loop"
			}
		}
	}
	if cleanupWired.msg != "" {
		r.Violate("C10", "C10.cleanup-not-wired", "static", "%s (static check of cmd/thermal-recorder/main.go)", cleanupWired.msg)
	} else {
		r.Probe("static-startup-cleanup-wired")
	}
}

// checkBadFrameBranch: static side check for C13's "asks the camera daemon to restart the camera": the
// D-Bus calls cannot be observed (no system bus in the simulation), so the source of handleConn is
// checked for them: the branch taken for *lepton3.BadFrameErr must queue the bad-thermal-frame event
// and call leptondController.RestartCamera.
var badBranch struct {
	done   bool
	msg    string
	phrase string // text of the unconditional log line of the bad-frame branch ("" if it has none)
}

func checkBadFrameBranch(r *verifsim.Run) {
	loadBadFrameBranch()
	if badBranch.msg != "" {
		r.Violate("C13", "C13.reported", "static:restart-request", "%s (static check of cmd/thermal-recorder/main.go)", badBranch.msg)
	} else {
		r.Probe("static-bad-frame-branch-checked")
	}
}

func loadBadFrameBranch() {
	if !badBranch.done {
		badBranch.done = true
		fset := token.NewFileSet()
		f, err := parser.ParseFile(fset, filepath.Join(repoRoot(), "cmd/thermal-recorder/main.go"), nil, 0)
		if err != nil {
			badBranch.msg = "cannot parse main.go: " + err.Error()
		} else {
			found := false
			ast.Inspect(f, func(n ast.Node) bool {
				ifs, ok := n.(*ast.IfStmt)
				if !ok || ifs.Init == nil {
					return true
				}
				// if _, isBadFrame := err.(*lepton3.BadFrameErr); isBadFrame { ... }
				isBad := false
				ast.Inspect(ifs.Init, func(m ast.Node) bool {
					if ta, ok := m.(*ast.TypeAssertExpr); ok {
						if st, ok := ta.Type.(*ast.StarExpr); ok {
							if se, ok := st.X.(*ast.SelectorExpr); ok && se.Sel.Name == "BadFrameErr" {
								isBad = true
							}
						}
					}
					return true
				})
				if !isBad {
					return true
				}
				calls := map[string]bool{}
				ast.Inspect(ifs.Body, func(m ast.Node) bool {
					if c, ok := m.(*ast.CallExpr); ok {
						if se, ok := c.Fun.(*ast.SelectorExpr); ok {
							if id, ok := se.X.(*ast.Ident); ok {
								calls[id.Name+"."+se.Sel.Name] = true
							}
						}
					}
					return true
				})
				if calls["eventclient.AddEvent"] && calls["leptondController.RestartCamera"] {
					found = true
				}
				// the branch's own unconditional log line (if it has one) is the run-time witness that the
				// branch was taken; its text is read from the source, never assumed
				for _, st := range ifs.Body.List {
					es, ok := st.(*ast.ExprStmt)
					if !ok {
						continue
					}
					c, ok := es.X.(*ast.CallExpr)
					if !ok || len(c.Args) != 1 {
						continue
					}
					se, ok := c.Fun.(*ast.SelectorExpr)
					if !ok {
						continue
					}
					if id, ok := se.X.(*ast.Ident); !ok || id.Name != "log" || !strings.HasPrefix(se.Sel.Name, "Print") {
						continue
					}
					if lit, ok := c.Args[0].(*ast.BasicLit); ok && lit.Kind == token.STRING {
						if v, err := strconv.Unquote(lit.Value); err == nil && len(v) > 8 && !strings.Contains(v, "%") {
							badBranch.phrase = strings.TrimSpace(v)
						}
					}
				}
				return true
			})
			if !found {
				badBranch.msg = "handleConn has no branch for *lepton3.BadFrameErr that queues the event and calls leptondController.RestartCamera"
			}
		}
	}
}

// startupCleanup calls deleteTempFiles(dir) the way runMain does once at start-up. The call goes
// through reflection so that a change of the function's parameter list still compiles and gets a
// verdict instead of a build error (further parameters get their zero value, i.e. a new option at
// its default).
func startupCleanup(dir string) error {
	fn := reflect.ValueOf(deleteTempFiles)
	t := fn.Type()
	args := make([]reflect.Value, t.NumIn())
	for i := range args {
		if i == 0 && t.In(0).Kind() == reflect.String {
			args[i] = reflect.ValueOf(dir).Convert(t.In(0))
		} else {
			args[i] = reflect.Zero(t.In(i))
		}
	}
	out := fn.Call(args)
	if n := len(out); n > 0 {
		if err, ok := out[n-1].Interface().(error); ok {
			return err
		}
	}
	return nil
}
