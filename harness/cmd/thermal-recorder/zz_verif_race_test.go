//go:build verif

package main

// Unit C.race (C16, race pass): the same kind of scenario as C.snap, built with -race,
// yields turned into no-ops plus seeded runtime.Gosched() perturbation; camera, frame
// loop and clients are really concurrent goroutines. Go's race detector is
// happens-before based: two conflicting accesses with no ordering are reported
// whichever came first, so the report (not the execution) replays. A report whose
// stacks contain a frame of the repository is a violation; its signature is the
// unordered pair of the innermost repository functions.

import (
	"fmt"
	"net"
	"os"
	"path/filepath"
	"sort"
	"testing"
	"time"

	goconfig "github.com/TheCacophonyProject/go-config"
	zz "github.com/TheCacophonyProject/thermal-recorder/zzverif"

	"verifsim"
)

func runCRace(r *verifsim.Run) {
	sc := genSnapScenario(r)
	nClients := r.Range(1, 3)
	var gaps [][]int
	var kinds [][]byte
	for ci := 0; ci < nClients; ci++ {
		n := r.Range(3, 12)
		var g []int
		var k []byte
		for i := 0; i < n; i++ {
			g = append(g, r.OneOf(0, 1, 5, 20, 50, 111, 300))
			k = append(k, "sssti"[r.Draw(5)])
		}
		gaps = append(gaps, g)
		kinds = append(kinds, k)
	}
	for i, cn := range sc.Conns {
		r.Set(fmt.Sprintf("conn%d", i), cn.describe())
	}
	r.Set("clients", fmt.Sprintf("%v %q", gaps, kinds))
	zz.NewRaceReports() // discard anything reported before this run
	verifsim.SetRaceSeed(r.Seed)
	verifsim.SetMode(verifsim.ModeRace)
	defer verifsim.SetMode(verifsim.ModeOff)
	root, err := os.MkdirTemp(scratchRoot(), "vr")
	if err != nil {
		panic(err)
	}
	defer os.RemoveAll(root)
	confDir := filepath.Join(root, "etc")
	outDir := filepath.Join(root, "out")
	os.MkdirAll(confDir, 0755)
	os.MkdirAll(outDir, 0755)
	resetProcessGlobals()
	panicMsg := ""
	bubble(func(t *testing.T) {
		svc := &service{}
		stop := make(chan struct{})
		cdone := make(chan struct{}, nClients)
		for ci := 0; ci < nClients; ci++ {
			ci := ci
			go func() {
				defer func() { cdone <- struct{}{} }()
				last := -1
				for k := range gaps[ci] {
					select {
					case <-stop:
						return
					case <-time.After(time.Duration(gaps[ci][k]) * time.Millisecond):
					}
					switch kinds[ci][k] {
					case 's':
						if f, _ := svc.TakeSnapshot(last); f != nil {
							last = f.Status.FrameCount
						}
					case 't':
						svc.TakeTestRecording()
					case 'i':
						svc.CameraInfo()
					}
				}
			}()
		}
		for ci, cn := range sc.Conns {
			os.WriteFile(filepath.Join(confDir, goconfig.ConfigFileName), []byte(cn.Cfg.toml(outDir)), 0644)
			conf, err := ParseConfig(confDir)
			if err != nil {
				panic(err)
			}
			if ci == 0 {
				startupCleanup(conf.OutputDir)
			}
			a, b := net.Pipe()
			done := make(chan struct{})
			go func() {
				defer close(done)
				defer func() {
					if p := recover(); p != nil {
						panicMsg = fmt.Sprint(p)
						a.Close()
					}
				}()
				handleConn(a, conf)
				a.Close()
			}()
			cameraPlain(stripRequests(&cScenario{Conns: []*cConn{cn}}).Conns[0], b)
			<-done
		}
		close(stop)
		for i := 0; i < nClients; i++ {
			<-cdone
		}
	})
	r.Count("connections", len(sc.Conns))
	if panicMsg != "" {
		r.Violate("C16", "C16.panic", "frame-loop", "the frame loop panicked while requests were being served concurrently: %s", panicMsg)
		return
	}
	reps := zz.NewRaceReports()
	r.Count("race_reports", len(reps))
	// reports in signature order, so that the first reported violation does not depend on which
	// race the runtime happened to notice first; the raw report (addresses, goroutine numbers)
	// goes to the event log, the message stays reproducible
	sigs := map[string]string{}
	var order []string
	for _, rep := range reps {
		sig, txt := zz.RaceSignature(rep)
		if sig == "" {
			r.Probe("race-report-outside-repository")
			continue
		}
		if _, ok := sigs[sig]; !ok {
			order = append(order, sig)
			sigs[sig] = txt
		}
	}
	sort.Strings(order)
	for _, sig := range order {
		txt := sigs[sig]
		if len(txt) > 1800 {
			txt = txt[:1800] + " …"
		}
		r.Logf("race report for %s:\n%s", sig, txt)
		r.Violate("C16", "C16.race", sig, "data race between the request path and the frame loop (innermost repository functions of the two unordered accesses): %s", sig)
	}
	r.Nontrivial(fmt.Sprintf("%d:%v:%q", len(sc.Conns), gaps, kinds))
	r.Probe("race-pass-run")
}
