//go:build verif

package main

// Two further world-C units:
//   C.log      (C20, composed claim): the daemon with its recording window closed and
//              continuous motion for minutes of simulated time prints "Recording not
//              started…" once per minute, and interleaved distinct messages are all there.
//   C.dirfault (C12, spot check): three real CPTVFileRecorders while the output directory
//              disappears and comes back (start/stop failures of the real storage layer).

import (
	"bytes"
	"fmt"
	"log"
	"os"
	"path/filepath"
	"strings"
	"time"

	"github.com/TheCacophonyProject/lepton3"
	zz "github.com/TheCacophonyProject/thermal-recorder/zzverif"

	"verifsim"
)

const msgWindow = "Recording not started: motion detected but outside of recording window"
const msgSnapshot = "making a snapshot"

func runCLog(r *verifsim.Run) {
	cfg := genCfg(r, "C20")
	cfg.Model = lepton3.Model
	cfg.MotionKeys = nil
	cfg.Exp = defaultMotionFor(cfg.Model)
	cfg.Fps = r.OneOf(1, 1, 2)
	cfg.ThrOn = false
	cfg.Cont = false
	cfg.MinDiskMB, cfg.SimFree = 0, false
	// window closed for (most of) the run: the bubble clock starts at 00:00
	cfg.WinStart, cfg.WinStop = localHHMM(12*60), localHHMM(13*60) // closed for the whole run
	if r.Chance(1, 3) {
		cfg.WinStart, cfg.WinStop = localHHMM(r.Range(2, 6)), localHHMM(13*60) // opens during the run
	}
	exp := &cfg.Exp
	exp.DynamicThreshold, exp.TempThresh, exp.DeltaThresh, exp.CountThresh = false, 2900, 50, 1
	exp.FrameCompareGap, exp.UseOneDiffOnly, exp.WarmerOnly, exp.TriggerFrames, exp.EdgePixels = 1, true, false, r.Range(0, 3), 0
	for _, kv := range [][2]interface{}{{"dynamic-threshold", false}, {"temp-thresh", 2900}, {"delta-thresh", 50}, {"count-thresh", 1}, {"frame-compare-gap", 1},
		{"use-one-diff-only", true}, {"warmer-only", false}, {"trigger-frames", exp.TriggerFrames}, {"edge-pixels", 0}} {
		cfg.MotionKeys = append(cfg.MotionKeys, fmt.Sprintf("%s = %v", kv[0], kv[1]))
	}
	if cfg.Preview*cfg.Fps+exp.TriggerFrames == 0 {
		cfg.Preview = 1
	}
	cn := &cConn{Cfg: cfg, CutAt: -1, Chunks: []int{cfg.frameSize()}, Costs: []int{r.Range(1, 20), r.Range(1, 20), r.Range(1, 20)}}
	s := &cScene{r: r, c: &cn.Cfg, base: 3100, up: 60000, ffc: 1000}
	n := r.Range(80, 700)
	sinceT := 1000
	nClear := 0
	for i := 0; i < n; i++ {
		move := !r.Chance(1, 12) // continuous motion with rare still frames
		if sinceT > 24 && r.Chance(1, 60) {
			cn.Ev = append(cn.Ev, cEvent{Kind: 'T'})
			sinceT = 0
		}
		if r.Chance(1, 50) {
			cn.Ev = append(cn.Ev, cEvent{Kind: 'C'}) // camera reset: the limiter's memory must survive it
			nClear++
		}
		cn.Ev = append(cn.Ev, s.next('F', move))
		sinceT++
	}
	sc := &cScenario{Conns: []*cConn{cn}, Focus: "C20"}
	r.Set("conn0", cn.describe())
	var buf bytes.Buffer
	log.SetOutput(&buf)
	res := execPlain(sc)
	log.SetOutput(ioDiscard{})
	if res.ParseErr != nil || len(res.Conns) != 1 || res.Conns[0].Panic != "" {
		r.Violate("C12", "C12.panic", "handleConn", "run failed: %v %v", res.ParseErr, res.Conns)
		return
	}
	r.SimTime(res.End.Sub(res.Start))
	cr := &res.Conns[0]
	nSent := 0
	for i := range cn.Ev {
		if cn.Ev[i].Kind == 'F' {
			nSent++
		}
	}
	_, tr := reference(cn, cr.ProcTimes, nSent)
	// arrivals at the daemon's limiter, in order, with the instants at which the daemon read the clock
	model := &zz.LogModel{Interval: time.Minute}
	var want []string
	open, run := false, 0
	k := 0
	refused := 0
	for i := range tr.Ev {
		e := &tr.Ev[i]
		if e.Kind != 'F' {
			continue
		}
		at := cr.ProcTimes[k].Add(time.Duration(cn.Costs[k%len(cn.Costs)]) * time.Millisecond)
		k++
		if e.Motion {
			run++
		} else {
			run = 0
		}
		winOpen, _ := (zz.WinModel{StartMin: hm(cfg.WinStart), StopMin: hm(cfg.WinStop)}).At(at)
		if !open && e.Motion && run >= exp.TriggerFrames && !winOpen {
			refused++
			if model.Arrive(msgWindow, at) {
				want = append(want, msgWindow)
			}
		}
		for _, c := range e.Calls[zz.SinkTest] {
			if c.Op == 'S' {
				if model.Arrive(msgSnapshot, at) {
					want = append(want, msgSnapshot)
				}
			}
		}
		if e.Started {
			open = true
		}
		if e.Ended {
			open, run = false, 0
		}
	}
	var got []string
	for _, line := range strings.Split(buf.String(), "\n") {
		switch {
		case strings.HasSuffix(line, msgWindow):
			got = append(got, msgWindow)
		case strings.HasSuffix(line, msgSnapshot):
			got = append(got, msgSnapshot)
		}
	}
	abbr := func(v []string) string {
		b := make([]byte, len(v))
		for i, s := range v {
			b[i] = 'w'
			if s == msgSnapshot {
				b[i] = 's'
			}
		}
		return string(b)
	}
	if abbr(got) != abbr(want) {
		sig := "too-many"
		if len(got) < len(want) {
			sig = "too-few"
		}
		if len(got) == len(want) {
			sig = "order"
		}
		r.Violate("C20", "C20.composed", sig, "over %v of simulated time with the window closed the start was refused on %d frames; the daemon's log holds the lines %q (w = refused start, s = test recording), the limiter rule (one line per minute per repeated message, every distinct message) gives %q", res.End.Sub(res.Start).Round(time.Second), refused, abbr(got), abbr(want))
		return
	}
	if len(want) >= 3 {
		r.Nontrivial(fmt.Sprintf("%s:%d:%s", cfg.WinStart, n, abbr(want)))
	}
	if refused > 120 {
		r.Probe("condition-recurred-for-minutes")
	}
	if nClear > 0 && refused > 0 {
		r.Probe("camera-reset-while-condition-recurs")
	}
	if strings.Contains(abbr(want), "ws") || strings.Contains(abbr(want), "sw") {
		r.Probe("distinct-messages-interleaved")
	}
	r.Count("refused_starts", refused)
	r.Count("log_lines", len(want))
}

type ioDiscard struct{}

func (ioDiscard) Write(p []byte) (int, error) { return len(p), nil }

func hm(s string) int {
	var h, m int
	fmt.Sscanf(s, "%d:%d", &h, &m)
	return h*60 + m
}

// ---- C.dirfault ---------------------------------------------------------------------------

func runCDirFault(r *verifsim.Run) {
	cfg := genCfg(r, "C12")
	cfg.ThrOn = r.Chance(1, 3)
	if cfg.ThrOn && cfg.MinS+cfg.Preview == 0 {
		cfg.MinS, cfg.MaxS = 1, cfg.MaxS+1 // refill rate 0 is outside the quantifiers (DESIGN change log B.10)
	}
	cfg.Cont = r.Chance(1, 2)
	cfg.MotionKeys = nil
	cfg.Exp = defaultMotionFor(cfg.Model)
	exp := &cfg.Exp
	exp.DynamicThreshold, exp.TempThresh, exp.DeltaThresh, exp.CountThresh = false, 2900, 50, 1
	exp.FrameCompareGap, exp.UseOneDiffOnly, exp.WarmerOnly, exp.TriggerFrames, exp.EdgePixels = 1, true, false, r.Range(0, 2), r.Draw(2)
	for _, kv := range [][2]interface{}{{"dynamic-threshold", false}, {"temp-thresh", 2900}, {"delta-thresh", 50}, {"count-thresh", 1}, {"frame-compare-gap", 1},
		{"use-one-diff-only", true}, {"warmer-only", false}, {"trigger-frames", exp.TriggerFrames}, {"edge-pixels", exp.EdgePixels}} {
		cfg.MotionKeys = append(cfg.MotionKeys, fmt.Sprintf("%s = %v", kv[0], kv[1]))
	}
	if cfg.Preview*cfg.Fps+exp.TriggerFrames == 0 {
		cfg.Preview = 1
	}
	cn := &cConn{Cfg: cfg, CutAt: -1, Chunks: []int{cfg.frameSize()}, Costs: []int{r.Range(1, 10), r.Range(1, 10)}}
	s := &cScene{r: r, c: &cn.Cfg, base: 3100, up: 60000, ffc: 1000}
	n := r.Range(30, 120)
	gone := r.Range(2, n-10)
	back := gone + r.Range(1, 25)
	capF := cfg.Preview*cfg.Fps + exp.TriggerFrames
	maxF := cfg.MaxS * cfg.Fps
	for i := 0; i < n; i++ {
		kind := byte('F')
		if r.Chance(1, 40) {
			kind = 'B'
		}
		if r.Chance(1, 30) {
			cn.Ev = append(cn.Ev, cEvent{Kind: 'T'})
		}
		if i == gone {
			cn.Ev = append(cn.Ev, cEvent{Kind: 'G'})
		}
		if i == back {
			cn.Ev = append(cn.Ev, cEvent{Kind: 'R'})
		}
		cn.Ev = append(cn.Ev, s.next(kind, r.Chance(2, 3)))
	}
	if back >= n {
		cn.Ev = append(cn.Ev, cEvent{Kind: 'R'})
	}
	// liveness suffix: quiet, burst, quiet
	for i := 0; i < maxF+capF+24; i++ {
		cn.Ev = append(cn.Ev, s.next('F', false))
	}
	for i := 0; i < exp.TriggerFrames+3; i++ {
		cn.Ev = append(cn.Ev, s.next('F', true))
	}
	for i := 0; i < maxF+cfg.MinS*cfg.Fps+capF+3; i++ {
		cn.Ev = append(cn.Ev, s.next('F', false))
	}
	sc := &cScenario{Conns: []*cConn{cn}, Focus: "C12"}
	sc.PreDir = r.Chance(1, 3) // the output directory of an earlier run of the daemon
	if !sc.PreDir && cfg.Cont && r.Chance(1, 4) {
		// one more storage fault: the folder of the continuous recorder cannot be created (a file is in the way);
		// its recordings fail to start, nothing else is affected
		sc.PreFile = true
		r.Probe("real-recorder-continuous-folder-blocked")
	} else if r.Chance(1, 4) {
		// ... or the whole output directory is missing when the camera connects (the medium is mounted late)
		sc.StartGone = true
		r.Probe("real-recorder-output-directory-missing-at-connect")
	}
	r.Set("conn0", cn.describe())
	res := execPlain(sc)
	r.SimTime(res.End.Sub(res.Start))
	if res.ParseErr != nil {
		r.Violate("C11", "C11.config", "parse", "%v", res.ParseErr)
		return
	}
	cr := &res.Conns[0]
	if cr.Panic != "" {
		r.Violate("C12", "C12.panic", "real-recorder", "with the real file recorders, the output directory removed at frame %d and restored at frame %d: panic in the frame loop: %s", gone, back, cr.Panic)
		return
	}
	if cr.Err == nil {
		r.Violate("C14", "C14.close", "no-error", "handleConn returned nil")
	}
	nSent := 0
	for i := range cn.Ev {
		if cn.Ev[i].Kind == 'F' || cn.Ev[i].Kind == 'B' {
			nSent++
		}
	}
	if len(cr.ProcTimes) != nSent {
		r.Violate("C12", "C12.panic", "frames-lost", "%d frames sent, %d processed while the output directory was missing", nSent, len(cr.ProcTimes))
		return
	}
	for f, d := range res.Decoded {
		if d.Err != "" {
			r.Violate("C10", "C10.incomplete-cptv", "final:"+debrisPattern(f), "%s bears the .cptv name but does not decode: %s", f, d.Err)
			r.Violate("C12", "C12.protocol", "real-recorder:broken-file", "%s does not decode after storage failures: %s", f, d.Err)
			return
		}
	}
	// liveness: the burst after the directory came back is recorded
	found := false
	burstFirst := cn.Ev[len(cn.Ev)-1].ID - (maxF + cfg.MinS*cfg.Fps + capF + 3) - (exp.TriggerFrames + 3) + 1
	for f, d := range res.Decoded {
		if filepath.Dir(f) != "." {
			continue
		}
		for _, fr := range d.Frames {
			if fr.Status.BackgroundFrame {
				continue
			}
			for id := burstFirst; id < burstFirst+exp.TriggerFrames+3; id++ {
				if e := findEv(cn, id); e != nil && samePix(fr.Pix, e.Pix) && (cfg.boson() || fr.Status.TimeOn == e.Tel.TimeOn()) {
					found = true
				}
			}
		}
	}
	if !found {
		r.Violate("C12", "C12.liveness", "real-recorder", "after the output directory came back (frame %d) the motion burst at frames %d.. was not recorded in any finished file (files: %v)", back, burstFirst, res.Final)
		return
	}
	r.Probe("real-recorder-directory-removed-and-restored")
	if cfg.Cont {
		r.Probe("real-recorder-continuous-on")
	}
	r.Nontrivial(cn.describe())
}

func findEv(cn *cConn, id int) *cEvent {
	for i := range cn.Ev {
		if (cn.Ev[i].Kind == 'F' || cn.Ev[i].Kind == 'B') && cn.Ev[i].ID == id {
			return &cn.Ev[i]
		}
	}
	return nil
}

var _ = os.Rename
