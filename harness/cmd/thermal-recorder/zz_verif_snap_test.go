//go:build verif

package main

// Unit C.snap (C16, deterministic pass): D-Bus service requests (TakeSnapshot,
// TakeTestRecording, CameraInfo) issued by client tasks at tape-chosen instants of the
// step clock, interleaved by the seeded scheduler with the frame loop at statement
// granularity (instrumented main.go, snapshot.go, service.go, boson.go,
// motionprocessor.go, frameloop.go, cptvfilerecorder.go).

import (
	"fmt"
	"path/filepath"
	"sort"
	"strings"

	"github.com/TheCacophonyProject/thermal-recorder/headers"

	"verifsim"
)

func genSnapScenario(r *verifsim.Run) *cScenario {
	sc := &cScenario{Focus: "C16"}
	sc.OutName = outNames[r.Draw(len(outNames))]
	nConn := r.OneOf(1, 1, 2, 3)
	val := 1
	for ci := 0; ci < nConn; ci++ {
		cfg := genCfg(r, "C16")
		cfg.W, cfg.H = r.Range(3, 6), r.Range(3, 5)
		cfg.ThrOn = false
		cfg.MotionKeys = nil
		cfg.Exp.DynamicThreshold = false
		cfg.Exp.TempThresh = 1
		cfg.Exp.DeltaThresh = uint16(r.OneOf(0, 0, 60000))
		cfg.Exp.CountThresh = 1
		cfg.Exp.FrameCompareGap = r.Range(1, 3)
		cfg.Exp.UseOneDiffOnly = true
		cfg.Exp.WarmerOnly = false
		cfg.Exp.TriggerFrames = r.Range(1, 3)
		cfg.Exp.EdgePixels = r.Draw(2)
		for _, kv := range [][2]interface{}{{"dynamic-threshold", false}, {"temp-thresh", 1}, {"delta-thresh", cfg.Exp.DeltaThresh}, {"count-thresh", 1},
			{"frame-compare-gap", cfg.Exp.FrameCompareGap}, {"use-one-diff-only", true}, {"warmer-only", false}, {"trigger-frames", cfg.Exp.TriggerFrames}, {"edge-pixels", cfg.Exp.EdgePixels}} {
			cfg.MotionKeys = append(cfg.MotionKeys, fmt.Sprintf("%s = %v", kv[0], kv[1]))
		}
		if cfg.Preview*cfg.Fps+cfg.Exp.TriggerFrames < 2 {
			cfg.Preview = 1 // ring of at least two slots (DESIGN §5 C16: single-slot ring is an observation)
		}
		cn := &cConn{Cfg: cfg, CutAt: -1}
		n := r.Range(4, 40)
		up := uint32(60000)
		for i := 0; i < n; i++ {
			if r.Chance(1, 25) {
				cn.Ev = append(cn.Ev, cEvent{Kind: 'C'})
			}
			kind := byte('F')
			if r.Chance(1, 15) {
				kind = 'B'
			}
			p := make([][]uint16, cfg.H)
			for y := range p {
				p[y] = make([]uint16, cfg.W)
				for x := range p[y] {
					p[y][x] = uint16(val)
				}
			}
			if kind == 'B' {
				p[cfg.H/2][cfg.W/2] = 0
				if cfg.H/2 < cfg.Exp.EdgePixels || cfg.W/2 < cfg.Exp.EdgePixels || cfg.H/2 >= cfg.H-cfg.Exp.EdgePixels || cfg.W/2 >= cfg.W-cfg.Exp.EdgePixels {
					kind = 'F' // the centre lies in the border: keep the frame uniform and valid
					p[cfg.H/2][cfg.W/2] = uint16(val)
				}
			}
			up += uint32(1000 / cfg.Fps)
			// (the camera's own frame counter starts again with every connection: the daemon restarted it)
			cn.Ev = append(cn.Ev, cEvent{Kind: kind, Pix: p, ID: val, Tel: telFor(up, len(cn.Ev)+1)})
			val++
		}
		fs := cfg.frameSize()
		for i, k := 0, r.Range(1, 6); i < k; i++ {
			cn.Chunks = append(cn.Chunks, r.OneOf(1, 3, fs-1, fs, fs+1, 2*fs, r.Range(1, 3*fs)))
		}
		maxCost := 1000/cfg.Fps - 1
		if maxCost > 20 {
			maxCost = 20
		}
		for i := 0; i < 4; i++ {
			cn.Costs = append(cn.Costs, r.Range(1, maxCost))
		}
		if r.Chance(1, 4) {
			cn.CutAt = r.Range(1, fs-1)
		}
		sc.Conns = append(sc.Conns, cn)
	}
	return sc
}

func runCSnap(r *verifsim.Run) {
	sc := genSnapScenario(r)
	var opt cSchedOpts
	if r.Chance(1, 5) {
		// a run long enough (1 fps, > 2 simulated minutes) for the daemon's own window triggers to fire:
		// window active from the start, ending at 00:04 -> triggers at +1 min and at 00:02
		sc.Conns = sc.Conns[:1]
		cn := sc.Conns[0]
		cn.Cfg.Fps = 1
		cn.Cfg.WinStart, cn.Cfg.WinStop = localHHMM(-60), localHHMM(4)
		cn.CutAt = -1
		val := 1
		for i := range cn.Ev {
			if cn.Ev[i].ID >= val {
				val = cn.Ev[i].ID + 1
			}
		}
		for len(cn.Ev) < 135 {
			p := make([][]uint16, cn.Cfg.H)
			for y := range p {
				p[y] = make([]uint16, cn.Cfg.W)
				for x := range p[y] {
					p[y][x] = uint16(val)
				}
			}
			cn.Ev = append(cn.Ev, cEvent{Kind: 'F', Pix: p, ID: val})
			val++
		}
		up := uint32(60000) // uptime consistent with 1 fps
		for i := range cn.Ev {
			if cn.Ev[i].Kind == 'F' || cn.Ev[i].Kind == 'B' {
				up += 1000
				cn.Ev[i].Tel = telFor(up, i+1)
			}
		}
		for i := range cn.Costs {
			if cn.Costs[i] > 20 {
				cn.Costs[i] = 20
			}
		}
		opt.Triggers = true
		r.Probe("window-trigger-task")
	}
	opt.Clients = r.Range(1, 3)
	opt.MaxFree = -1
	totalFrames := 0
	for _, cn := range sc.Conns {
		totalFrames += len(cn.Ev)
	}
	for ci := 0; ci < opt.Clients; ci++ {
		n := r.Range(2, 10)
		var gaps []int
		var kinds []byte
		spread := r.Chance(1, 2) // this client's requests are spread over the whole run (all connections), not bunched at its start
		for k := 0; k < n; k++ {
			if spread {
				gaps = append(gaps, -r.Range(0, 2*totalFrames/n+1)) // negative: a gap counted in processed frames
				kinds = append(kinds, "ssssti"[r.Draw(6)])
				continue
			}
			gaps = append(gaps, r.OneOf(0, 1, 2, 5, r.Range(0, 60), r.Range(0, 600), r.Range(0, 40*totalFrames)))
			kinds = append(kinds, "ssssti"[r.Draw(6)])
		}
		opt.ReqGaps = append(opt.ReqGaps, gaps)
		opt.ReqKinds = append(opt.ReqKinds, kinds)
	}
	for i, cn := range sc.Conns {
		r.Set(fmt.Sprintf("conn%d", i), cn.describe())
	}
	r.Set("clients", fmt.Sprintf("%v %q", opt.ReqGaps, opt.ReqKinds))
	res := execSched(r, sc, opt)
	r.Set("schedule", fmt.Sprintf("steps=%d switches=%d signature=%016x", res.Steps, res.Switches, res.Sig))
	r.Logf("steps=%d switches=%d sig=%016x final=%v", res.Steps, res.Switches, res.Sig, res.Final)
	r.Count("steps", res.Steps)
	r.Count("context_switches", res.Switches)
	r.SimTime(res.End.Sub(res.Start))
	checkSnap(r, sc, res, true)
}

func checkSnap(r *verifsim.Run, sc *cScenario, res *cSchedResult, compareFiles bool) {
	if res.ParseErr != nil {
		r.Violate("C11", "C11.config", "parse", "config rejected: %v", res.ParseErr)
		return
	}
	if res.TaskPanic != "" {
		r.Violate("C16", "C16.panic", "task", "%s", res.TaskPanic)
		return
	}
	nTestReq := 0
	for qi := range res.Reqs {
		if res.Reqs[qi].Kind == 't' && res.Reqs[qi].Err == "" {
			nTestReq++
		}
	}
	for ci := range res.Conns {
		if res.Conns[ci].Panic != "" {
			r.Violate("C16", "C16.panic", "frame-loop", "connection %d: the frame loop panicked while requests were being served: %s", ci, res.Conns[ci].Panic)
			if nTestReq > 0 {
				r.Violate("C17", "C17.test", "disturbs:panic", "connection %d: with %d test-recording requests served the frame loop panicked (a test recording must not disturb a motion recording in progress): %s", ci, nTestReq, res.Conns[ci].Panic)
			}
			return
		}
	}
	if res.Deadlock != "" {
		r.Violate("C16", "C16.stall", kindOfStall(res.Deadlock), "the pipeline stalled: %s", res.Deadlock)
		return
	}
	// global list of delivered frames
	type fr struct {
		val  int
		bad  bool
		conn int
	}
	var frames []fr
	for ci, cn := range sc.Conns {
		n := 0
		for i := range cn.Ev {
			if cn.Ev[i].Kind == 'F' || cn.Ev[i].Kind == 'B' {
				n++
			}
		}
		if cn.CutAt >= 0 {
			n--
		}
		k := 0
		for i := range cn.Ev {
			e := &cn.Ev[i]
			if (e.Kind == 'F' || e.Kind == 'B') && k < n {
				frames = append(frames, fr{e.ID, e.Kind == 'B', ci})
				k++
			}
		}
	}
	if len(frames) != len(res.StartStep) {
		r.Violate("C16", "C16.stall", "frames-lost", "%d frames were sent but %d were processed while requests were being served", len(frames), len(res.StartStep))
		return
	}
	byVal := map[int]int{}
	for i, f := range frames {
		byVal[f.val] = i
	}
	mid := 0
	for qi := range res.Reqs {
		q := &res.Reqs[qi]
		switch q.Kind {
		case 's':
			if q.Torn != "" {
				r.Violate("C16", "C16.whole-frame", "mixture", "request %d of client %d (steps %d..%d) returned a frame that is a mixture of two frames: %s", qi, q.Client, q.Invoke, q.Return, q.Torn)
				return
			}
			if q.Err != "" {
				r.Probe("snapshot-refused: " + q.Err)
			}
			if q.Err != "" || q.Value == -1 {
				continue
			}
			lower := 0 // most recent accepted frame whose processing had completed at invocation
			upper := 0 // most recent frame started by the time of the return
			for i, f := range frames {
				if !f.bad && res.DoneStep[i] <= q.Invoke {
					lower = f.val
				}
				if res.StartStep[i] <= q.Return {
					upper = f.val
				}
			}
			if q.Value == 0 {
				// blank frame of a fresh processor: allowed only if some connection's processor could be
				// the serving one and had completed no frame at invocation
				ok := false
				for c := range res.ConnStep {
					if res.ConnStep[c] > q.Return {
						continue
					}
					none := true
					for i, f := range frames {
						if f.conn == c && !f.bad && res.DoneStep[i] <= q.Invoke {
							none = false
						}
					}
					if none {
						ok = true
					}
				}
				if !ok {
					r.Violate("C16", "C16.whole-frame", "blank", "request %d (steps %d..%d) returned a blank frame although frame %d had been processed completely", qi, q.Invoke, q.Return, lower)
					return
				}
				continue
			}
			i, known := byVal[q.Value]
			switch {
			case !known:
				r.Violate("C16", "C16.whole-frame", "unknown", "request %d returned a uniform frame of value %d that was never sent", qi, q.Value)
				return
			case frames[i].bad:
				r.Violate("C16", "C16.whole-frame", "bad-frame", "request %d returned frame %d which was rejected as a bad frame", qi, q.Value)
				return
			case q.Value < lower:
				r.Violate("C16", "C16.whole-frame", "stale", "request %d (steps %d..%d) returned frame %d although frame %d had been processed completely when the request was made", qi, q.Invoke, q.Return, q.Value, lower)
				return
			case q.Value > upper:
				r.Violate("C16", "C16.whole-frame", "future", "request %d (steps %d..%d) returned frame %d but only frames up to %d had started to arrive", qi, q.Invoke, q.Return, q.Value, upper)
				return
			}
			// was the request served while a frame was being processed?
			for i := range frames {
				if res.StartStep[i] < q.Return && res.DoneStep[i] > q.Invoke {
					mid++
					break
				}
			}
			r.Probe("snapshot-served")
			if q.Conn > 0 {
				r.Probe("snapshot-served-after-a-reconnect")
			}
		case 'i':
			if q.Info == nil {
				continue
			}
			match := false
			for _, cn := range sc.Conns {
				c := &cn.Cfg
				if q.Info[headers.XResolution] == c.W && q.Info[headers.YResolution] == c.H && q.Info[headers.FPS] == c.Fps && q.Info[headers.Model] == c.Model &&
					q.Info[headers.FrameSize] == c.frameSize() && q.Info[headers.Serial] == c.Serial && q.Info[headers.Firmware] == c.Firmware && q.Info[headers.Brand] == "flir" {
					match = true
				}
			}
			if match {
				r.Probe("camera-info-served")
			} else {
				r.Probe("obs-camera-info-mixes-two-descriptions")
			}
		case 't':
			if q.Err == "" {
				r.Probe("test-recording-requested")
			}
		}
	}
	r.ProbeN("request-served-mid-frame", mid)
	for lbl, n := range res.Served {
		if strings.HasPrefix(lbl, "cmd/thermal-recorder/boson.go:") {
			r.ProbeN("other-task-ran-while-loop-inside-boson-parse", n)
		}
		if strings.HasPrefix(lbl, "motion/frameloop.go:") {
			r.ProbeN("other-task-ran-while-loop-inside-frameloop", n)
		}
	}
	r.Distinct("c16.interleaving", fmt.Sprintf("%016x", res.Sig))
	if len(res.Conns) > 1 {
		r.Probe("reconnect")
	}
	// the pipeline is not disturbed: same finished files as the run without clients (test recordings aside)
	if compareFiles {
		plain := execPlain(stripRequests(sc))
		sigOf := func(d *cDecoded) string {
			if d.Err != "" {
				return "ERR:" + d.Err
			}
			s := fmt.Sprintf("%d:", len(d.Frames))
			for _, f := range d.Frames {
				if f.Status.BackgroundFrame {
					s += "bg,"
				} else {
					s += fmt.Sprintf("%d,", f.Pix[0][0])
				}
			}
			return s
		}
		var want, got []string
		var wantC, gotC []string
		for _, f := range plain.Final {
			if strings.HasSuffix(f, ".cptv") {
				if filepath.Dir(f) == "." {
					want = append(want, sigOf(plain.Decoded[f]))
				} else {
					wantC = append(wantC, sigOf(plain.Decoded[f]))
				}
			}
		}
		for _, f := range res.Final {
			if strings.HasSuffix(f, ".cptv") {
				if filepath.Dir(f) == "." {
					got = append(got, sigOf(res.Decoded[f]))
				} else {
					gotC = append(gotC, sigOf(res.Decoded[f]))
				}
			}
		}
		if strings.Join(wantC, "|") != strings.Join(gotC, "|") {
			r.Violate("C16", "C16.pipeline", "continuous", "the continuous recordings differ from those of the same run without requests: %v vs %v", gotC, wantC)
			return
		}
		// want must be a subsequence of got; the rest are test recordings (21 frames + background)
		j := 0
		for _, g := range got {
			if j < len(want) && g == want[j] {
				j++
				continue
			}
			if !strings.HasPrefix(g, "22:bg,") && !strings.HasPrefix(g, "21:") {
				r.Violate("C16", "C16.pipeline", "extra-file", "a finished file that is neither a motion recording of the run without requests nor a 21-frame test recording: %s (expected motion files %v)", g, want)
				return
			}
			r.Probe("test-recording-file")
		}
		if j != len(want) {
			r.Violate("C16", "C16.pipeline", "motion", "the motion recordings differ from those of the same run without requests: got %v, expected %v", got, want)
			if nTestReq > 0 {
				r.Violate("C17", "C17.test", "disturbs:motion-files", "with %d test-recording requests served, the motion recordings differ from those of the same run without requests: got %v, expected %v", nTestReq, got, want)
			}
			return
		}
		// C17: every accepted test-recording request yields a file - unless it is served by a test recording
		// already in progress. Lower bound on the number of test files: accepted requests taken in the order
		// they returned; one counts if the frame loop went on to process 21 good frames of the same connection
		// that all started after the request had returned, and none of them served an earlier counted request.
		// (Skipped when the daemon's own window triggers run: their requests are not in the request log.)
		if !res.Triggers {
			nTestFiles := len(got) - len(want)
			var reqs []*cRequest
			for qi := range res.Reqs {
				if q := &res.Reqs[qi]; q.Kind == 't' && q.Err == "" {
					reqs = append(reqs, q)
				}
			}
			sort.Slice(reqs, func(a, b int) bool { return reqs[a].Return < reqs[b].Return })
			busyUntil, expected := -1, 0
			for _, q := range reqs {
				i0 := -1
				for i := range frames {
					if res.StartStep[i] > q.Return {
						i0 = i
						break
					}
				}
				// the request must have reached the processor of the connection that delivered those frames: that
				// connection had already completed a frame when the request was invoked
				if i0 >= 0 && !(i0 > 0 && frames[i0-1].conn == frames[i0].conn && res.DoneStep[i0-1] <= q.Invoke) {
					continue
				}
				if i0 < 0 || i0 <= busyUntil {
					if i0 >= 0 {
						busyUntil = maxInt(busyUntil, i0) // may extend nothing: served by the recording in progress
					}
					continue
				}
				good, last := 0, -1
				for i := i0; i < len(frames) && frames[i].conn == frames[i0].conn; i++ {
					if !frames[i].bad {
						good++
						if good == 21 {
							last = i
							break
						}
					}
				}
				if last < 0 {
					continue // the connection ended before the recording could be completed
				}
				expected++
				busyUntil = last + 1
			}
			if nTestFiles < expected {
				r.Violate("C17", "C17.test", "request-lost:daemon", "%d accepted TakeTestRecording requests were each followed by 21 good frames no earlier request could have used, but only %d test recordings were made (requests %v)", expected, nTestFiles, reqSteps(reqs))
				return
			}
			if expected > 0 {
				r.Probe("test-recording-requests-accounted-for")
			}
		}
		if len(want)+len(wantC) > 0 {
			r.Probe("files-compared-with-run-without-requests")
		}
	}
	if len(res.Reqs) > 0 && len(frames) > 0 {
		r.Nontrivial(fmt.Sprintf("%016x:%d", res.Sig, len(res.Reqs)))
	}
}

func kindOfStall(s string) string {
	switch {
	case strings.HasPrefix(s, "deadlock"):
		return "deadlock"
	case strings.HasPrefix(s, "stall"):
		return "no-progress"
	case strings.HasPrefix(s, "step budget"):
		return "step-budget"
	}
	return "bubble"
}

func stripRequests(sc *cScenario) *cScenario {
	out := &cScenario{Focus: sc.Focus, OutName: sc.OutName}
	for _, cn := range sc.Conns {
		c2 := *cn
		c2.Ev = nil
		for _, e := range cn.Ev {
			if e.Kind != 'T' {
				c2.Ev = append(c2.Ev, e)
			}
		}
		out.Conns = append(out.Conns, &c2)
	}
	return out
}

func maxInt(a, b int) int {
	if a > b {
		return a
	}
	return b
}

func reqSteps(reqs []*cRequest) []int {
	var out []int
	for _, q := range reqs {
		out = append(out, q.Return)
	}
	return out
}
