//go:build verif

//go:debug asynctimerchan=0

package main

// World C: the real recorder daemon code path — ParseConfig on a generated
// config.toml, handleConn on a net.Pipe, headers.ReadHeaderInfo, the frame
// parsers, MotionProcessor, throttle wiring, CPTVFileRecorder + go-cptv on a real
// directory — inside a testing/synctest bubble (fake clock) with a simulated
// camera daemon on the other end of the pipe.

import (
	"bytes"
	"fmt"
	"io"
	"log"
	"net"
	"os"
	"path/filepath"
	"runtime/debug"
	"sort"
	"strings"
	"sync"
	"syscall"
	"testing"
	"testing/synctest"
	"time"

	goconfig "github.com/TheCacophonyProject/go-config"
	cptv "github.com/TheCacophonyProject/go-cptv"
	"github.com/TheCacophonyProject/go-cptv/cptvframe"
	"github.com/TheCacophonyProject/lepton3"
	"github.com/TheCacophonyProject/thermal-recorder/headers"
	"github.com/TheCacophonyProject/thermal-recorder/motion"
	"github.com/TheCacophonyProject/thermal-recorder/recorder"
	zz "github.com/TheCacophonyProject/thermal-recorder/zzverif"
	"github.com/TheCacophonyProject/window"
	yamlv1 "gopkg.in/yaml.v1"
	yamlv2 "gopkg.in/yaml.v2"

	"verifsim"
)

var theT *testing.T

func init() {
	log.SetOutput(io.Discard)
	if os.Getenv("VERIF_DEBUGLOG") != "" {
		log.SetOutput(os.Stdout) // the daemon's own log lines, for debugging a replay
	}
	// the daemon works in local time (window times, file names); the simulated device sits in a zone that
	// is not UTC and not on a whole hour, so that "local" and "UTC" can never be confused unnoticed
	time.Local = time.FixedZone("+1245", zoneOffsetMin*60)
}

const zoneOffsetMin = 12*60 + 45

// localHHMM: the wall-clock time HH:MM that the local clock shows m minutes after the bubble's epoch
// (2000-01-01 00:00:00 UTC).
func localHHMM(m int) string {
	t := ((zoneOffsetMin+m)%1440 + 1440) % 1440
	return fmt.Sprintf("%02d:%02d", t/60, t%60)
}

// bubble runs f in a synctest bubble on a helper goroutine: if the testing package ends the
// inner test with runtime.Goexit (it does after a race report or a failed inner test), only
// the helper goroutine ends and the worker loop still gets to record what happened.
func bubble(f func(t *testing.T)) (panicked string) {
	done := make(chan struct{})
	go func() {
		defer close(done)
		defer func() {
			if p := recover(); p != nil {
				panicked = fmt.Sprint(p) // e.g. synctest: "deadlock: main bubble goroutine has exited but blocked goroutines remain"
			}
		}()
		synctest.Test(theT, f)
	}()
	<-done
	return panicked
}

func scratchRoot() string {
	if d := os.Getenv("VERIF_SCRATCH"); d != "" {
		return d
	}
	return os.TempDir()
}

// ---- scenario ---------------------------------------------------------------------

type cCfg struct {
	Model               string
	W, H, Fps           int
	Serial              int
	Firmware            string
	DeviceID            int
	DeviceName          string
	MinS, MaxS, Preview int
	Cont                bool
	MinDiskMB           uint64
	SimFree             bool   // the simulated disk answers the free-space question for the output directory
	SimFreeMB           uint64 // ... with this many whole MB free
	Amp                 int      // how much warmer than the scene the blob is
	NFrames             int      // generator: exact number of events (0 = drawn)
	AllMotion           bool     // generator: the blob toggles on every frame
	MotionKeys          []string // "key = value" lines of [thermal-motion]
	Exp                 goconfig.ThermalMotion
	ThrOn               bool
	BucketS, RefillS    int
	BucketMs            int  // bucket-size need not be a whole number of seconds
	ThrKeyless          bool // 'activate' is left to its default (true)
	HasLoc              bool
	Lat, Long, Alt, Acc float32
	LocTS               time.Time
	WinStart, WinStop   string
}

func (c *cCfg) boson() bool { return c.Model == "boson" }

// allBorder: the configured edge border leaves no interior pixel (every pixel is a border pixel)
func (c *cCfg) allBorder() bool {
	return 2*c.Exp.EdgePixels >= c.W || 2*c.Exp.EdgePixels >= c.H
}

// diskOK: the free-disk-space check passes when the free space is at least the configured minimum
func (c *cCfg) diskOK() bool {
	if c.SimFree {
		return c.SimFreeMB >= c.MinDiskMB
	}
	return c.MinDiskMB < 1000000
}

// statfsHook is the simulated disk for the output directory of this configuration
func (c *cCfg) statfsHook(outDir string) func(string, *syscall.Statfs_t) (bool, error) {
	if !c.SimFree {
		return nil
	}
	free := c.SimFreeMB
	return func(path string, st *syscall.Statfs_t) (bool, error) {
		if filepath.Clean(path) != filepath.Clean(outDir) {
			return false, nil
		}
		*st = syscall.Statfs_t{}
		st.Bsize = 4096
		st.Bavail = free*256 + 255 // whole MB free: `free`, plus most of another one
		st.Bfree = st.Bavail
		st.Blocks = st.Bavail*2 + 256
		return true, nil
	}
}
func (c *cCfg) frameSize() int {
	if c.boson() {
		return c.W * c.H * 2
	}
	return zz.LeptonRawSize(c.W, c.H)
}

type cEvent struct {
	Kind byte // 'F' valid, 'B' bad frame, 'C' clear marker, 'T' test-recording request (before the next frame)
	Pix  [][]uint16
	Tel  zz.Tel
	ID   int
	// the camera daemon stalls after StallAt bytes of this frame for StallMs of simulated time (0: no stall)
	StallAt, StallMs int
}

type cConn struct {
	Cfg    cCfg
	Ev     []cEvent
	Chunks []int  // chunk sizes, cycled
	Costs  []int  // ms of fake time charged per processed frame, cycled
	CutAt  int    // close the connection after this many bytes of the last frame (-1: on the frame boundary)
	OutDir string // set at execution (storage-fault events rename it)
	// TrailingClear: the last message of the stream is a 'clear' marker (connection lost while the camera restarts)
	TrailingClear bool
}

type cScenario struct {
	Conns     []*cConn
	Focus     string
	OutName   string // name of the output directory ("" = out)
	PreDir    bool   // the output directory already has its constant-recordings folder (left by an earlier run of the daemon)
	PreFile   bool   // storage fault: a regular file stands where the constant-recordings folder should be
	StartGone bool   // storage fault: the output directory is missing when the first connection starts (an 'R' event brings it back)
}

func (sc *cScenario) outName() string {
	if sc.OutName == "" {
		return "out"
	}
	return sc.OutName
}

// outNames: legal directory names; the suffixes the recorder itself uses and printf verbs among them.
var outNames = []string{"out", "out", "out", "cptv.temp", "rec.temp.d", "my recordings", "100%full %d%s", "x.cptv", "日本 ß"}

func tomlQuote(s string) string {
	var b strings.Builder
	b.WriteByte('"')
	for _, r := range s {
		switch {
		case r == '"' || r == '\\':
			b.WriteByte('\\')
			b.WriteRune(r)
		case r < 0x20 || r == 0x7f:
			fmt.Fprintf(&b, "\\u%04X", r)
		default:
			b.WriteRune(r)
		}
	}
	b.WriteByte('"')
	return b.String()
}

func (c *cCfg) toml(outDir string) string {
	var b strings.Builder
	fmt.Fprintf(&b, "[device]\nid = %d\nname = %s\ngroup = \"g\"\nserver = \"https://example.invalid\"\n\n", c.DeviceID, tomlQuote(c.DeviceName))
	fmt.Fprintf(&b, "[thermal-recorder]\noutput-dir = %s\nmin-disk-space-mb = %d\nmin-secs = %d\nmax-secs = %d\npreview-secs = %d\nconstant-recorder = %v\n\n",
		tomlQuote(outDir), c.MinDiskMB, c.MinS, c.MaxS, c.Preview, c.Cont)
	if len(c.MotionKeys) > 0 {
		b.WriteString("[thermal-motion]\n")
		for _, k := range c.MotionKeys {
			b.WriteString(k + "\n")
		}
		b.WriteString("\n")
	}
	b.WriteString("[thermal-throttler]\n")
	if !(c.ThrOn && c.ThrKeyless) {
		fmt.Fprintf(&b, "activate = %v\n", c.ThrOn)
	} // (throttling is on by default: the key may be left out)
	fmt.Fprintf(&b, "bucket-size = \"%dms\"\nmin-refill = \"%ds\"\n\n", c.BucketS*1000+c.BucketMs, c.RefillS)
	if c.HasLoc {
		fmt.Fprintf(&b, "[location]\nlatitude = %v\nlongitude = %v\naltitude = %v\naccuracy = %v\n", c.Lat, c.Long, c.Alt, c.Acc)
		if !c.LocTS.IsZero() {
			fmt.Fprintf(&b, "timestamp = %s\n", c.LocTS.UTC().Format(time.RFC3339))
		}
		b.WriteString("\n")
	}
	fmt.Fprintf(&b, "[windows]\nstart-recording = %q\nstop-recording = %q\n\n", c.WinStart, c.WinStop)
	fmt.Fprintf(&b, "[lepton]\nframe-output = \"/nonexistent/lepton-frames\"\n")
	return b.String()
}

func (c *cCfg) tomlSansMotion(outDir string) string {
	d := *c
	d.MotionKeys = nil
	return d.toml(outDir)
}

func randName(r *verifsim.Run, maxLen int) string {
	n := r.OneOf(0, 1, 5, 12, r.Range(0, maxLen), maxLen)
	alphabet := []rune("abcXYZ019-_ .äß√日\"\\#'")
	var b strings.Builder
	for b.Len() < n {
		ch := alphabet[r.Draw(len(alphabet))]
		if b.Len()+len(string(ch)) > n {
			ch = 'a'
		}
		b.WriteRune(ch)
	}
	return b.String()
}

// genCfg draws settings; focus biases it.
func genCfg(r *verifsim.Run, focus string) cCfg {
	var c cCfg
	c.Model = []string{lepton3.Model, lepton3.Model35, "boson"}[r.Draw(3)]
	if (focus == "C05" || focus == "C06") && c.Model == "boson" {
		c.Model = lepton3.Model35 // throttled files are matched through TimeOn, which the Boson converter fabricates
	}
	c.W, c.H = r.Range(4, 10), r.Range(4, 8)
	if r.Tier == "thorough" && r.Chance(1, 25) {
		// realistic sensor sizes (Lepton 160x120 with its real 39040-byte frames, Boson 320x256)
		if c.Model == "boson" {
			c.W, c.H = 320, 256
		} else {
			c.W, c.H = 160, 120
		}
	}
	c.Fps = r.OneOf(1, 2, 3, 5, 9, 9)
	c.Serial = r.OneOf(0, 1, 12345, r.Draw(1<<31))
	c.Firmware = []string{"", "1.2.3", "3.3.26", randName(r, 40), randName(r, 250), "Lepton 3.5 radiometric build 2019-11-05 (gpp 3.3.26 dsp 3.3.26) shuttered, factory calibrated unit", "yaml"}[r.Draw(7)]
	if c.Firmware == "yaml" {
		// revision strings that other YAML dialects read as something else than a string
		y := []string{"2021-03-24", "2001-12-14t21:59:43.10-05:00", "2001-12-14 21:59:43.10 -5", "true", "null", "~", "1e3", "0x1F", "12:30:45", "- a", "a: b", "#x", "'q'", "[1]", "{a}", "!!str x", "|", ">", "yes", "No", "0o14", ".inf", "010", "1_000", "3.3", "<<", "=", "*a", "&a b", "%TAG"}
		c.Firmware = y[r.Draw(len(y))]
	}
	c.DeviceID = r.OneOf(0, 1, 77, r.Draw(1<<20))
	c.DeviceName = randName(r, 255)
	c.Preview = r.Draw(3)
	c.MinS = r.Draw(3)
	c.MaxS = c.MinS + r.Draw(3)
	c.Cont = r.Chance(1, 2)
	c.Exp = goconfig.DefaultThermalMotion(c.Model)
	c.Amp = 400
	set := func(key string, val interface{}) {
		c.MotionKeys = append(c.MotionKeys, fmt.Sprintf("%s = %v", key, val))
	}
	// usually a fixed threshold with small numbers so that the simulated scenes trigger; sometimes the model defaults
	if !r.Chance(1, 6) {
		c.Exp.DynamicThreshold = r.Chance(1, 4)
		set("dynamic-threshold", c.Exp.DynamicThreshold)
		// each threshold may be left to the model's default (they differ between Lepton 3 and 3.5)
		if r.Chance(4, 5) {
			c.Exp.TempThresh = uint16(r.Range(2800, 3000))
			set("temp-thresh", c.Exp.TempThresh)
		}
		if r.Chance(4, 5) {
			c.Exp.DeltaThresh = uint16(r.Range(5, 60))
			set("delta-thresh", c.Exp.DeltaThresh)
		} else {
			c.Amp = r.OneOf(400, 120) // between the two models' default delta-thresh, or above both
		}
		c.Exp.CountThresh = r.Range(1, 3)
		set("count-thresh", c.Exp.CountThresh)
		c.Exp.FrameCompareGap = r.Range(1, 4)
		set("frame-compare-gap", c.Exp.FrameCompareGap)
		if r.Chance(1, 2) {
			c.Exp.UseOneDiffOnly = r.Chance(1, 2)
			set("use-one-diff-only", c.Exp.UseOneDiffOnly)
		}
		if r.Chance(1, 2) {
			c.Exp.WarmerOnly = r.Chance(1, 2)
			set("warmer-only", c.Exp.WarmerOnly)
		}
		if r.Chance(1, 2) {
			c.Exp.TriggerFrames = r.Draw(4)
			set("trigger-frames", c.Exp.TriggerFrames)
		}
		if r.Chance(1, 2) {
			c.Exp.EdgePixels = r.Draw(2)
			set("edge-pixels", c.Exp.EdgePixels)
		}
		if c.Exp.DynamicThreshold && r.Chance(1, 2) {
			which := r.Draw(3) // both limits, the lower one only, the upper one only (an absent limit is 0 = none)
			if which != 2 {
				c.Exp.TempThreshMin = uint16(r.Range(2700, 2900))
				set("temp-thresh-min", c.Exp.TempThreshMin)
			}
			if which != 1 {
				c.Exp.TempThreshMax = uint16(r.Range(2900, 3100))
				set("temp-thresh-max", c.Exp.TempThreshMax)
			}
		}
	} else if r.Chance(1, 2) {
		// model defaults, only the compare gap reduced so that short streams can trigger
		c.Exp.FrameCompareGap = r.Range(1, 5)
		set("frame-compare-gap", c.Exp.FrameCompareGap)
	}
	if c.Preview*c.Fps+c.Exp.TriggerFrames == 0 {
		c.Preview = 1
	}
	c.ThrOn = r.Chance(1, 2)
	c.BucketS, c.RefillS = 600, 600 // ample: C11 compares with the unthrottled prediction
	if c.ThrOn && c.MinS+c.Preview == 0 {
		c.MinS, c.MaxS = 1, c.MaxS+1
	}
	c.HasLoc = r.Chance(2, 3)
	if c.HasLoc {
		c.Lat = float32(r.Range(-9000, 9000)) / 100
		c.Long = float32(r.Range(-18000, 18000)) / 100
		c.Alt = float32(r.Range(-50, 3000))
		c.Acc = float32(r.Range(0, 100))
		if r.Chance(1, 2) {
			c.LocTS = time.Date(2019, 5, 20, 12, r.Draw(60), r.Draw(60), 0, time.UTC)
		}
	}
	c.WinStart, c.WinStop = "12:00", "12:00" // no window
	switch focus {
	case "C17":
		if r.Chance(1, 3) {
			c.Fps = r.OneOf(30, 60) // 21 frames take well under a second: requests close together in time are still non-overlapping
		}
	case "C04":
		// the bubble clock starts at 2000-01-01 00:00:00 UTC: windows whose boundaries the run walks across,
		// in both directions (incl. one spanning midnight), and the real statfs refusal
		c.Fps = r.OneOf(1, 1, 2, 3)
		c.ThrOn = false
		a, b := r.Range(0, 3), r.Range(0, 3)
		if a == b {
			b = a + 1
		}
		c.WinStart, c.WinStop = localHHMM(a), localHHMM(b)
		if r.Chance(1, 6) {
			c.WinStart, c.WinStop = localHHMM(-1), localHHMM(1+r.Draw(2))
		}
		if r.Chance(1, 8) {
			// a window that spans local midnight (the local clock shows 12:45 at the start of the run)
			c.WinStart, c.WinStop = localHHMM(r.Range(0, 2)), "00:00"
		}
		if r.Chance(1, 4) {
			// more than any disk has: the real free-space check refuses. Values whose byte count does not
			// fit 64 bits are legal settings too (the comparison is in MB).
			c.MinDiskMB = []uint64{1000000000, 1000000000, 1 << 44, 1 << 50, 1 << 62, 1<<63 - 1, 3 << 43}[r.Draw(7)]
		}
		if r.Chance(1, 3) {
			// the simulated disk: free space exactly at, just above, just below the minimum, and an empty-handed
			// volume (0 MB free) with the check switched off (minimum 0)
			c.SimFree = true
			c.MinDiskMB = uint64(r.OneOf(0, 0, 1, 200, 5000))
			switch r.Draw(4) {
			case 0:
				c.SimFreeMB = c.MinDiskMB
			case 1:
				c.SimFreeMB = c.MinDiskMB + 1
			case 2:
				if c.MinDiskMB > 0 {
					c.SimFreeMB = c.MinDiskMB - 1
				}
			case 3:
				c.SimFreeMB = 0
			}
		}
	case "C13":
		if !c.Exp.DynamicThreshold && r.Chance(1, 10) {
			// an edge border wider than half the frame in both dimensions: no interior pixel is left, a zero
			// anywhere is a zero in the border (fixed threshold only: the background estimate of a dynamic
			// threshold indexes outside such a frame - an observation outside every quantifier)
			m := c.W
			if c.H > m {
				m = c.H
			}
			c.Exp.EdgePixels = m/2 + 1 + r.Draw(2)
			var keys []string
			for _, k := range c.MotionKeys {
				if !strings.HasPrefix(k, "edge-pixels ") {
					keys = append(keys, k)
				}
			}
			c.MotionKeys = append(keys, fmt.Sprintf("edge-pixels = %d", c.Exp.EdgePixels))
		}
	case "C05", "C06":
		c.ThrOn = !r.Chance(1, 5)
		if c.ThrOn {
			c.BucketS = r.OneOf(1, 2, 3, 5, 10)
			c.BucketMs = r.OneOf(0, 0, 100, 500, 900)
			c.ThrKeyless = r.Chance(1, 3)
			c.RefillS = r.OneOf(2, 5, 20, 60)
			if c.MinS+c.Preview == 0 {
				c.MinS, c.MaxS = 1, c.MaxS+1
			}
		}
	}
	return c
}

// applyMotionKeys: the settings in force for a camera model = the model's defaults overlaid with the keys
// present in [thermal-motion] (their values taken from src).
func applyMotionKeys(model string, keys []string, src goconfig.ThermalMotion) goconfig.ThermalMotion {
	out := goconfig.DefaultThermalMotion(model)
	for _, kv := range keys {
		switch strings.TrimSpace(strings.SplitN(kv, "=", 2)[0]) {
		case "dynamic-threshold":
			out.DynamicThreshold = src.DynamicThreshold
		case "temp-thresh":
			out.TempThresh = src.TempThresh
		case "delta-thresh":
			out.DeltaThresh = src.DeltaThresh
		case "count-thresh":
			out.CountThresh = src.CountThresh
		case "frame-compare-gap":
			out.FrameCompareGap = src.FrameCompareGap
		case "use-one-diff-only":
			out.UseOneDiffOnly = src.UseOneDiffOnly
		case "warmer-only":
			out.WarmerOnly = src.WarmerOnly
		case "trigger-frames":
			out.TriggerFrames = src.TriggerFrames
		case "edge-pixels":
			out.EdgePixels = src.EdgePixels
		case "temp-thresh-min":
			out.TempThreshMin = src.TempThreshMin
		case "temp-thresh-max":
			out.TempThreshMax = src.TempThreshMax
		case "verbose":
			out.Verbose = src.Verbose
		default:
			panic("unknown thermal-motion key in " + kv)
		}
	}
	return out
}

// remodel: the same config.toml with a camera of another model (and possibly another resolution and
// frame rate) behind it.
func remodel(r *verifsim.Run, c cCfg) cCfg {
	orig := c
	old := c.Exp
	models := []string{lepton3.Model, lepton3.Model35, "boson"}
	c.Model = models[r.Draw(3)]
	c.Exp = applyMotionKeys(c.Model, c.MotionKeys, old)
	if r.Chance(1, 2) {
		c.W, c.H = r.Range(4, 10), r.Range(4, 8)
	}
	if r.Chance(1, 2) {
		c.Fps = r.OneOf(1, 2, 3, 5, 9, 9)
	}
	if c.Preview*c.Fps+c.Exp.TriggerFrames == 0 || 2*c.Exp.EdgePixels+2 > c.W || 2*c.Exp.EdgePixels+2 > c.H {
		return orig // the new defaults do not fit this scenario: keep the camera
	}
	return c
}

func (c *cCfg) throttled() bool { return c.ThrOn && c.BucketS < 600 }

// scene generator: uniform background, a warm blob that appears/disappears
type cScene struct {
	r    *verifsim.Run
	c    *cCfg
	blob bool
	base uint16
	up   uint32
	ffc  uint32
	id   int
}

func (s *cScene) next(kind byte, move bool) cEvent {
	c := s.c
	if move {
		s.blob = !s.blob
	}
	p := zz.NewPix(c.W, c.H, s.base)
	ab := c.allBorder()
	if ab && kind == 'B' {
		kind = 'F' // no interior pixel: there is no place for a zero that makes the frame a bad one
	}
	if ab && s.blob {
		p[c.H/2][c.W/2] = s.base + uint16(c.Amp) // warm pixels come and go, all of them in the border
		p[c.H/2][c.W/2-1] = s.base + uint16(c.Amp)
	}
	if ab && s.r.Chance(1, 3) {
		p[s.r.Draw(c.H)][s.r.Draw(c.W)] = 0 // a zero in the border: the frame is valid
	}
	if s.blob {
		n := 0
		for y := c.Exp.EdgePixels; y < c.H-c.Exp.EdgePixels && n < 4; y++ {
			for x := c.Exp.EdgePixels; x < c.W-c.Exp.EdgePixels && n < 4; x++ {
				p[y][x] = s.base + uint16(c.Amp)
				n++
			}
		}
	}
	// full 16-bit range in a corner that detection ignores when edge >= 1; small noise otherwise
	h := verifsim.Mix(uint64(s.id), 99)
	if c.Exp.EdgePixels >= 1 {
		p[0][0] = uint16(h)
		p[c.H-1][c.W-1] = uint16(h >> 16)
		if p[0][0] == 0 && c.boson() {
			p[0][0] = 1 // keep uniqueness of boson frames visible
		}
	}
	edge := c.Exp.EdgePixels
	if kind == 'B' {
		switch s.r.Draw(5) {
		case 0:
			p[edge][edge] = 0 // first interior pixel
		case 1:
			p[c.H-1-edge][c.W-1-edge] = 0 // last interior pixel
		case 2:
			p[s.r.Range(edge, c.H-1-edge)][c.W-1-edge] = 0 // last interior column
		case 3:
			p[c.H-1-edge][s.r.Range(edge, c.W-1-edge)] = 0 // last interior row
		default:
			p[c.H/2][c.W/2] = 0
		}
	}
	if edge >= 1 && !ab && s.r.Chance(1, 8) {
		// zero pixels in the border only: the frame is valid
		switch s.r.Draw(4) {
		case 0:
			p[s.r.Draw(edge)][s.r.Draw(c.W)] = 0
		case 1:
			p[c.H-1-s.r.Draw(edge)][s.r.Draw(c.W)] = 0
		case 2:
			p[s.r.Draw(c.H)][s.r.Draw(edge)] = 0
		default:
			p[s.r.Draw(c.H)][c.W-1-s.r.Draw(edge)] = 0
		}
	}
	if step := uint32(1000 / c.Fps); step > 0 {
		s.up += step
	} else {
		s.up++ // cameras faster than 1000 fps: time-on still identifies a frame
	}
	tel := zz.Tel{TimeOnMs: s.up, LastFFCMs: s.ffc, FrameCount: uint32(s.id), FrameMean: uint16(h >> 32), FPATemp: uint16(27000 + (h>>40)%6000), FPATempFFC: uint16(27000 + (h>>20)%6000), Noise: uint16(h >> 8)}
	e := cEvent{Kind: kind, Pix: p, Tel: tel, ID: s.id}
	s.id++
	return e
}

func genConn(r *verifsim.Run, focus string, cfg cCfg, firstID int) *cConn {
	cn := &cConn{Cfg: cfg, CutAt: -1}
	c := &cn.Cfg
	s := &cScene{r: r, c: c, base: uint16(r.Range(3050, 3150)), up: 60000, ffc: 1000, id: firstID}
	n := r.Range(20, 160)
	if focus == "C04" || focus == "C05" || focus == "C06" {
		n = r.Range(60, 260)
	}
	if c.NFrames > 0 {
		n = c.NFrames
	}
	pBad, pClear, pTest := 0, 0, 0
	if r.Chance(1, 3) {
		pBad = r.OneOf(10, 30)
	}
	if r.Chance(1, 2) {
		pClear = r.OneOf(10, 30)
	}
	if r.Chance(1, 3) || focus == "C17" && r.Chance(1, 2) {
		pTest = r.OneOf(10, 30, 200)
	}
	sinceT := 1000
	for len(cn.Ev) < n {
		seg := r.Pick(3, 4, 2)
		m := r.Range(1, 30)
		if focus == "C04" || focus == "C05" || focus == "C06" {
			seg = r.Pick(1, 6, 2) // mostly motion, so that starts are attempted all along the run
			m = r.Range(5, 80)
		}
		if c.AllMotion {
			seg, m = 1, n
		}
		for i := 0; i < m && len(cn.Ev) < n; i++ {
			move := false
			switch seg {
			case 1:
				move = true
			case 2:
				move = r.Chance(1, 2)
			}
			if pClear > 0 && r.Chance(pClear, 1000) {
				cn.Ev = append(cn.Ev, cEvent{Kind: 'C'})
				for r.Chance(1, 3) { // the camera may fail to restart: markers back to back, no frame in between
					cn.Ev = append(cn.Ev, cEvent{Kind: 'C'})
				}
			}
			if pTest > 0 && sinceT > 24 && r.Chance(pTest, 1000) {
				cn.Ev = append(cn.Ev, cEvent{Kind: 'T'})
				sinceT = 0
			}
			kind := byte('F')
			if pBad > 0 && r.Chance(pBad, 1000) {
				kind = 'B'
			}
			cn.Ev = append(cn.Ev, s.next(kind, move))
			sinceT++
		}
	}
	if focus == "C14" && r.Chance(1, 6) {
		// the camera restarts and the connection is lost before another frame gets through: the marker
		// is the last complete message of the stream
		cn.Ev = append(cn.Ev, cEvent{Kind: 'C'})
		cn.TrailingClear = true
	}
	fs := c.frameSize()
	if r.Chance(1, 4) {
		for i := range cn.Ev {
			if (cn.Ev[i].Kind == 'F' || cn.Ev[i].Kind == 'B') && r.Chance(1, 20) {
				cn.Ev[i].StallAt = r.OneOf(1, 2, 3, 4, 5, r.Range(1, fs-1))
				cn.Ev[i].StallMs = r.OneOf(300, 2500, 12000)
			}
		}
	}
	for i, k := 0, r.Range(1, 12); i < k; i++ {
		cn.Chunks = append(cn.Chunks, r.OneOf(1, 2, 3, 4, 5, 6, 7, fs-1, fs, fs+1, fs+5, 2*fs, 3*fs+2, r.Range(1, 4*fs)))
	}
	maxCost := 1000/c.Fps - 1
	if maxCost > 20 {
		maxCost = 20
	}
	if maxCost < 1 {
		maxCost = 1
	}
	for i := 0; i < 8; i++ {
		cn.Costs = append(cn.Costs, r.Range(1, maxCost))
	}
	if r.Chance(1, 3) {
		cn.CutAt = r.Range(1, fs-1) // connection dies in the middle of a frame
	}
	if cn.TrailingClear {
		cn.CutAt = -1
	}
	return cn
}

func (cn *cConn) describe() string {
	c := &cn.Cfg
	b := make([]byte, 0, len(cn.Ev))
	for _, e := range cn.Ev {
		b = append(b, e.Kind)
	}
	return fmt.Sprintf("%s %dx%d@%d amp%d serial%d fw%q dev%d/%dB min%d max%d preview%d cont=%v thr=%v loc=%v motion{%s} chunks%v cut%d ev=%s",
		c.Model, c.W, c.H, c.Fps, c.Amp, c.Serial, c.Firmware, c.DeviceID, len(c.DeviceName), c.MinS, c.MaxS, c.Preview, c.Cont, c.ThrOn, c.HasLoc, strings.Join(c.MotionKeys, "; "), cn.Chunks, cn.CutAt, b)
}

func defaultMotionFor(model string) goconfig.ThermalMotion {
	return goconfig.DefaultThermalMotion(model)
}

func telFor(upMs uint32, id int) zz.Tel {
	h := verifsim.Mix(uint64(id), 7)
	return zz.Tel{TimeOnMs: upMs, LastFFCMs: 1000, FrameCount: uint32(id), FrameMean: uint16(h), FPATemp: uint16(27000 + h%6000), FPATempFFC: uint16(27000 + (h>>16)%6000)}
}

// ---- wire format --------------------------------------------------------------------

func (c *cCfg) headerBytes() []byte {
	specs := map[string]interface{}{
		headers.XResolution: c.W,
		headers.YResolution: c.H,
		headers.FrameSize:   c.frameSize(),
		headers.Model:       c.Model,
		headers.Brand:       "flir",
		headers.FPS:         c.Fps,
		headers.Serial:      c.Serial,
		headers.Firmware:    c.Firmware,
	}
	y, err := yamlv1.Marshal(specs)
	if err != nil {
		panic(err)
	}
	return append(y, '\n')
}

func (cn *cConn) rawFrame(e *cEvent) []byte {
	c := &cn.Cfg
	raw := make([]byte, c.frameSize())
	if c.boson() {
		zz.PutBosonPixels(raw, e.Pix)
	} else {
		zz.PutLeptonTelemetry(raw, e.Tel)
		zz.PutLeptonPixels(raw, e.Pix)
	}
	return raw
}

// ---- execution ----------------------------------------------------------------------

type cFile struct {
	Dir, Name string
	Size      int64
}

type cDecoded struct {
	Name   string
	Err    string
	R      *cptv.Reader
	Frames []*cptvframe.Frame // incl. the background frame first if present
	HasBg  bool
}

type cConnResult struct {
	Err        error
	Panic      string
	ProcTimes  []time.Time // bubble time at the entry of Process, per delivered frame
	Accepted   []uint32    // processor.CurrentFrame observed at the entry of Process (and once after the connection)
	Header     *headers.HeaderInfo
	FilesAfter []string
}

type cResult struct {
	Conns    []cConnResult
	OutDir   string
	Final    []string // relative paths of everything left in the output dir
	Decoded  map[string]*cDecoded
	Start    time.Time
	End      time.Time
	ParseErr error
	Log      string // captured daemon log (empty when VERIF_DEBUGLOG is set)
}

func listTree(root string) []string {
	var out []string
	filepath.Walk(root, func(p string, info os.FileInfo, err error) error {
		if err != nil || info.IsDir() {
			return nil
		}
		rel, _ := filepath.Rel(root, p)
		out = append(out, rel)
		return nil
	})
	sort.Strings(out)
	return out
}

func decodeCPTV(path string) *cDecoded {
	d := &cDecoded{Name: path}
	f, err := os.Open(path)
	if err != nil {
		d.Err = err.Error()
		return d
	}
	defer f.Close()
	rd, err := cptv.NewReader(f)
	if err != nil {
		d.Err = "header: " + err.Error()
		return d
	}
	d.R = rd
	d.HasBg = rd.HasBackgroundFrame()
	for {
		fr := rd.EmptyFrame()
		err := rd.ReadFrame(fr)
		if err == io.EOF {
			break
		}
		if err != nil {
			d.Err = fmt.Sprintf("frame %d: %v", len(d.Frames), err)
			return d
		}
		d.Frames = append(d.Frames, fr)
		if len(d.Frames) > 70000 {
			d.Err = "too many frames"
			return d
		}
	}
	if int(rd.NumFrames()) != len(d.Frames) {
		d.Err = fmt.Sprintf("header says %d frames, file holds %d", rd.NumFrames(), len(d.Frames))
	}
	return d
}

type cOpts struct {
	KeepDir bool
	// Inside is run inside the bubble instead of the plain (unscheduled) execution when set.
}

// execPlain runs the scenario without the task scheduler: camera goroutine and
// handleConn goroutine are ordinary goroutines of the bubble; processing costs
// fake time through the yield hook.
func execPlain(sc *cScenario) *cResult {
	res := &cResult{Decoded: map[string]*cDecoded{}}
	root, err := os.MkdirTemp(scratchRoot(), "vc")
	if err != nil {
		panic(err)
	}
	defer os.RemoveAll(root)
	confDir := filepath.Join(root, "etc")
	outDir := filepath.Join(root, sc.outName())
	os.MkdirAll(confDir, 0755)
	os.MkdirAll(outDir, 0755)
	if sc.PreDir {
		os.MkdirAll(filepath.Join(outDir, "constant-recordings"), 0755)
	}
	if sc.PreFile {
		os.WriteFile(filepath.Join(outDir, "constant-recordings"), []byte("not a directory\n"), 0644)
	}
	res.OutDir = outDir
	resetProcessGlobals()
	var logBuf bytes.Buffer
	if os.Getenv("VERIF_DEBUGLOG") == "" {
		prev := log.Writer()
		// the daemon's own log lines are an observable (bad-frame reports, throttle events); a caller that
		// listens to the log itself (C.log) keeps receiving it
		log.SetOutput(io.MultiWriter(&logBuf, prev))
		defer func() { log.SetOutput(prev); res.Log = logBuf.String() }()
	}
	bubble(func(t *testing.T) {
		res.Start = time.Now()
		var conf *Config
		var err error
		for ci, cn := range sc.Conns {
			cr := cConnResult{}
			if err := os.WriteFile(filepath.Join(confDir, goconfig.ConfigFileName), []byte(cn.Cfg.toml(outDir)), 0644); err != nil {
				panic(err)
			}
			cn.OutDir = outDir
			// runMain parses config.toml once and hands the same *Config to every handleConn: a reconnect
			// with an unchanged configuration therefore re-uses the object (a changed file means a restart)
			// (checkConfigChanges ignores the motion section: an edit of [thermal-motion] alone does not
			// restart the daemon and takes effect with the next connection, through LoadMotionConfig)
			if ci == 0 || cn.Cfg.tomlSansMotion(outDir) != sc.Conns[ci-1].Cfg.tomlSansMotion(outDir) {
				conf, err = ParseConfig(confDir)
			}
			if err != nil {
				res.ParseErr = err
				return
			}
			if ci == 0 {
				if err := startupCleanup(conf.OutputDir); err != nil { // as runMain does once at start-up
					res.ParseErr = err
					return
				}
				if sc.StartGone {
					os.Rename(outDir, outDir+".gone")
				}
			}
			verifsim.StatfsHook = cn.Cfg.statfsHook(outDir)
			nProc := 0
			verifsim.Hook = func(label string) {
				switch label {
				case "motion/motionprocessor.go:Process:entry":
					cr.ProcTimes = append(cr.ProcTimes, time.Now())
					cr.Accepted = append(cr.Accepted, processor.CurrentFrame)
					time.Sleep(time.Duration(cn.Costs[nProc%len(cn.Costs)]) * time.Millisecond)
					nProc++
				case "cmd/thermal-recorder/cptvfilerecorder.go:StartRecording:entry":
					time.Sleep(time.Millisecond)
				}
			}
			a, b := net.Pipe()
			done := make(chan struct{})
			go func() {
				defer close(done)
				defer func() {
					if p := recover(); p != nil {
						cr.Panic = fmt.Sprint(p)
						if os.Getenv("VERIF_DEBUGLOG") != "" {
							fmt.Printf("panic in handleConn: %v\n%s\n", p, debug.Stack())
						}
						a.Close()
					}
				}()
				cr.Err = handleConn(a, conf)
				a.Close()
			}()
			cameraPlain(cn, b)
			<-done
			verifsim.Hook = nil
			verifsim.StatfsHook = nil
			if processor != nil {
				cr.Accepted = append(cr.Accepted, processor.CurrentFrame)
			}
			cr.Header = headerInfo
			cr.FilesAfter = listTree(outDir)
			res.Conns = append(res.Conns, cr)
			if cr.Panic != "" {
				break
			}
		}
		res.End = time.Now()
	})
	res.Final = listTree(outDir)
	for _, f := range res.Final {
		if strings.HasSuffix(f, ".cptv") {
			res.Decoded[f] = decodeCPTV(filepath.Join(outDir, f))
		}
	}
	return res
}

// resetProcessGlobals gives every simulated run the package-level state of a freshly
// started daemon process (the worker process executes thousands of runs).
// Observation (outside every property's quantifier, see DESIGN §7): handleConn multiplies
// frameLogInterval* by the fps on every connection, so a long-lived process with an even
// fps reaches 0 after 32-64 reconnects and then divides by zero.
func resetProcessGlobals() {
	verifsim.StatfsHook = nil
	frameLogIntervalFirstMin = 15
	frameLogInterval = 60 * 5
	processor = nil
	headerInfo = nil
	previousSnapshotID = 0
	previousSnapshotTime = time.Time{}
	mu = sync.Mutex{} // a run that left the request mutex locked must not poison the next run
}

// cameraPlain plays the camera daemon: header, then frames/markers cut into
// chunks; it sleeps one frame period (fake time) per frame sent and issues
// test-recording requests between frames.
func cameraPlain(cn *cConn, conn net.Conn) {
	defer conn.Close()
	c := &cn.Cfg
	period := time.Second / time.Duration(c.Fps)
	var pending []byte
	owed := time.Duration(0)
	ci := 0
	flush := func(all bool) bool {
		for len(pending) > 0 {
			n := cn.Chunks[ci%len(cn.Chunks)]
			if n > len(pending) {
				if !all {
					return true
				}
				n = len(pending)
			}
			ci++
			if _, err := conn.Write(pending[:n]); err != nil {
				return false
			}
			pending = pending[n:]
		}
		return true
	}
	pending = append(pending, c.headerBytes()...)
	lastFrame := -1
	for i := range cn.Ev {
		if cn.Ev[i].Kind == 'F' || cn.Ev[i].Kind == 'B' {
			lastFrame = i
		}
	}
	for i := range cn.Ev {
		e := &cn.Ev[i]
		switch e.Kind {
		case 'C':
			pending = append(pending, []byte("clear")...)
		case 'T':
			// deliver everything sent so far, let it be processed, then ask
			if !flush(true) {
				return
			}
			time.Sleep(owed + period)
			owed = 0
			newSnapshotRecording()
		case 'G', 'R':
			// storage fault: the output directory disappears / comes back while the loop is idle
			if !flush(true) {
				return
			}
			time.Sleep(owed + period)
			owed = 0
			if e.Kind == 'G' {
				os.Rename(cn.OutDir, cn.OutDir+".gone")
			} else {
				os.Rename(cn.OutDir+".gone", cn.OutDir)
			}
		case 'F', 'B':
			raw := cn.rawFrame(e)
			if i == lastFrame && cn.CutAt >= 0 {
				raw = raw[:cn.CutAt]
			}
			if e.StallAt > 0 && e.StallAt < len(raw) {
				// a partial write, then silence for a while, then the rest
				pending = append(pending, raw[:e.StallAt]...)
				if !flush(true) {
					return
				}
				time.Sleep(owed + time.Duration(e.StallMs)*time.Millisecond)
				owed = 0
				raw = raw[e.StallAt:]
			}
			pending = append(pending, raw...)
			owed += period
			if !flush(false) {
				return
			}
			if len(pending) == 0 {
				time.Sleep(owed)
				owed = 0
			}
		}
	}
	flush(true)
	time.Sleep(owed + period)
}

// ---- reference execution (expected recordings) --------------------------------------------

// refParser hands the reference processor the frames exactly as sent, applying
// the bad-frame rule of the statement (zero pixel outside the edge border).
type refFeed struct {
	cn   *cConn
	next *cEvent
}

func (f *refFeed) parse(raw []byte, out *cptvframe.Frame, edge int) error {
	e := f.next
	c := &f.cn.Cfg
	for y := range out.Pix {
		copy(out.Pix[y], e.Pix[y])
	}
	if c.boson() {
		out.Status = cptvframe.Telemetry{LastFFCTime: time.Second, TimeOn: time.Minute}
	} else {
		out.Status = cptvframe.Telemetry{TimeOn: e.Tel.TimeOn(), LastFFCTime: e.Tel.LastFFCTime(), FrameMean: e.Tel.FrameMean, TempC: e.Tel.TempC(), LastFFCTempC: e.Tel.LastFFCTempC(), FFCState: lepton3.FFCNever}
	}
	out.Status.FrameCount = e.ID
	for y := edge; y < c.H-edge; y++ {
		for x := edge; x < c.W-edge; x++ {
			if e.Pix[y][x] == 0 {
				return &lepton3.BadFrameErr{Cause: fmt.Errorf("zero pixel")}
			}
		}
	}
	return nil
}

type refRec struct {
	Sink    int
	IDs     []int
	Bg      [][]uint16
	Thresh  uint16
	StartEv int
	Closed  bool
	ByBad   bool // closed by a bad frame
}

// reference computes the recordings the settings and the byte stream call for,
// using the real motion package (verified on its own by the world-A checks) as
// executable specification, fed by an independent parser and the *expected*
// settings (go-config defaults of the camera model overlaid with the generated keys).
func reference(cn *cConn, procTimes []time.Time, delivered int) ([]refRec, *zz.Trace) {
	c := &cn.Cfg
	cam := zz.Cam{W: c.W, H: c.H, Fps: c.Fps}
	tr := &zz.Trace{}
	var sinks [3]*zz.Sink
	for i := range sinks {
		sinks[i] = zz.NewSink(tr, i)
	}
	sinks[zz.SinkMotion].UseEventGates = true
	w, err := window.New(c.WinStart, c.WinStop, 0, 0)
	if err != nil {
		panic(err)
	}
	clock := &zz.SimClock{}
	w.Now = clock.Now
	rc := &recorder.RecorderConfig{MinSecs: c.MinS, MaxSecs: c.MaxS, PreviewSecs: c.Preview, Window: *w, ConstantRecorder: c.Cont}
	feed := &refFeed{cn: cn}
	var cont recorder.Recorder
	if c.Cont {
		cont = sinks[zz.SinkCont]
	}
	exp := c.Exp
	mp := motion.NewMotionProcessor(feed.parse, &exp, rc, &goconfig.Location{}, &zz.Listener{T: tr}, sinks[zz.SinkMotion], cam, cont, sinks[zz.SinkTest])
	nF := 0
	for i := range cn.Ev {
		e := &cn.Ev[i]
		if (e.Kind == 'F' || e.Kind == 'B') && nF >= delivered {
			break
		}
		if e.Kind == 'G' || e.Kind == 'R' {
			continue
		}
		ev := tr.Begin(zz.Event{Kind: e.Kind, ID: -1, Ord: -1, WinOpen: true, DiskOK: true, CreateOK: true})
		switch e.Kind {
		case 'F', 'B':
			if nF < len(procTimes) {
				// the daemon reads the clock after the processing cost has been charged
				clock.T = procTimes[nF].Add(time.Duration(cn.Costs[nF%len(cn.Costs)]) * time.Millisecond)
			}
			ev.DiskOK = c.diskOK()
			nF++
			ev.ID = e.ID
			feed.next = e
			if err := mp.Process(nil); err == nil {
				ev.Ord = nF
			} else {
				ev.ErrKind = 'b'
			}
		case 'C':
			mp.Reset(cam)
		case 'T':
			mp.StartSnapshot = true
		}
	}
	var out []refRec
	for s := 0; s < 3; s++ {
		recs, _ := tr.Protocol(s)
		for _, rc := range recs {
			out = append(out, refRec{Sink: s, IDs: rc.IDs, Bg: rc.Bg, Thresh: rc.Thresh, StartEv: rc.StartEv, Closed: rc.StopEv >= 0,
				ByBad: rc.StopEv >= 0 && rc.StopEv < len(tr.Ev) && tr.Ev[rc.StopEv].ErrKind == 'b'})
		}
	}
	return out, tr
}

// ---- comparison -----------------------------------------------------------------------

func samePix(a [][]uint16, b [][]uint16) bool {
	if len(a) != len(b) {
		return false
	}
	for y := range a {
		if len(a[y]) != len(b[y]) {
			return false
		}
		for x := range a[y] {
			if a[y][x] != b[y][x] {
				return false
			}
		}
	}
	return true
}

func f32eq(a, b float64) bool { return float32(a) == float32(b) }

// checkFile compares one decoded file with the expected recording.
func checkFile(r *verifsim.Run, cn *cConn, d *cDecoded, exp *refRec, sent map[int]*cEvent, span [2]time.Time) {
	c := &cn.Cfg
	name := filepath.Base(d.Name)
	rd := d.R
	fail := func(rule, sig, f string, a ...interface{}) {
		r.Violate("C11", rule, sig, "file %s (%s recording of %d frames starting with frame id %d): "+f, append([]interface{}{name, zz.SinkName[exp.Sink], len(exp.IDs), firstOr(exp.IDs)}, a...)...)
	}
	// header
	yml, _ := yamlv2.Marshal(c.Exp)
	wantMotion := fmt.Sprintf("%striggeredthresh: %d\n", yml, exp.Thresh)
	wantAlt := c.Alt
	if !c.HasLoc || c.Alt < 0 {
		wantAlt = 0
	}
	wantFw := c.Firmware
	if wantFw == "" {
		wantFw = "<unknown>"
	}
	type hf struct {
		name      string
		got, want interface{}
	}
	fields := []hf{
		{"device name", rd.DeviceName(), c.DeviceName},
		{"device id", rd.DeviceID(), c.DeviceID},
		{"brand", rd.BrandName(), "flir"},
		{"model", rd.ModelName(), c.Model},
		{"serial", rd.SerialNumber(), c.Serial},
		{"firmware", rd.FirmwareVersion(), wantFw},
		{"res-x", rd.ResX(), c.W},
		{"res-y", rd.ResY(), c.H},
		{"fps", rd.FPS(), c.Fps},
		{"preview-secs", rd.PreviewSecs(), c.Preview},
		{"motion-config", rd.MotionConfig(), wantMotion},
		{"latitude", rd.Latitude(), c.Lat},
		{"longitude", rd.Longitude(), c.Long},
		{"altitude", rd.Altitude(), wantAlt},
		{"accuracy", rd.Accuracy(), c.Acc},
	}
	if c.HasLoc && !c.LocTS.IsZero() {
		fields = append(fields, hf{"location-timestamp", rd.LocTimestamp().UTC().Unix(), c.LocTS.Unix()})
	} else {
		fields = append(fields, hf{"location-timestamp", rd.LocTimestamp().IsZero(), true})
	}
	for _, f := range fields {
		if f.got != f.want {
			fail("C11.header", f.name, "header field %s is %#v, expected %#v", f.name, f.got, f.want)
			return
		}
	}
	if ts := rd.Timestamp(); ts.Before(span[0].Add(-time.Second)) || ts.After(span[1].Add(time.Second)) {
		fail("C11.header", "timestamp", "header timestamp %v lies outside the run (%v..%v)", ts, span[0], span[1])
		return
	}
	// frames
	frames := d.Frames
	if exp.Bg != nil {
		if !d.HasBg || len(frames) == 0 || !frames[0].Status.BackgroundFrame {
			fail("C11.background", "missing", "no background frame first")
			return
		}
		if !samePix(frames[0].Pix, exp.Bg) {
			fail("C11.background", "content", "background frame differs from the detector's background at the trigger")
			return
		}
		frames = frames[1:]
	} else if d.HasBg {
		fail("C11.background", "unexpected", "unexpected background frame")
		return
	}
	if len(frames) != len(exp.IDs) {
		fail("C11.frames", "count", "holds %d frames, expected %d", len(frames), len(exp.IDs))
		return
	}
	for i, id := range exp.IDs {
		e := sent[id]
		fr := frames[i]
		if fr.Status.BackgroundFrame {
			fail("C11.frames", "background-flag", "frame %d is flagged as background", i)
			return
		}
		if !samePix(fr.Pix, e.Pix) {
			fail("C11.frames", "pixels", "frame %d differs from frame id %d as sent on the socket", i, id)
			return
		}
		wantOn, wantFFC := e.Tel.TimeOn(), e.Tel.LastFFCTime()
		wantT, wantTF := e.Tel.TempC(), e.Tel.LastFFCTempC()
		if c.boson() {
			wantOn, wantFFC, wantT, wantTF = time.Minute, time.Second, 0, 0
		}
		if fr.Status.TimeOn != wantOn || fr.Status.LastFFCTime != wantFFC || !f32eq(fr.Status.TempC, wantT) || !f32eq(fr.Status.LastFFCTempC, wantTF) {
			fail("C11.frames", "telemetry", "frame %d (id %d): time-on %v last-ffc %v temp %v ffc-temp %v, expected %v %v %v %v", i, id, fr.Status.TimeOn, fr.Status.LastFFCTime, fr.Status.TempC, fr.Status.LastFFCTempC, wantOn, wantFFC, wantT, wantTF)
			return
		}
	}
	r.Count("frames_compared", len(exp.IDs))
}

func hasZero(p [][]uint16) bool {
	for _, row := range p {
		for _, v := range row {
			if v == 0 {
				return true
			}
		}
	}
	return false
}

func firstOr(v []int) int {
	if len(v) == 0 {
		return -1
	}
	return v[0]
}

// ---- unit C.e2e -------------------------------------------------------------------------

func runCE2E(r *verifsim.Run) {
	sc := &cScenario{Focus: r.Prop}
	sc.OutName = outNames[r.Draw(len(outNames))]
	sc.PreDir = r.Chance(1, 3)
	nConn := r.OneOf(1, 1, 2)
	if r.Chance(1, 20) {
		nConn = r.Range(3, 6) // the camera daemon keeps restarting
		r.Probe("stratum-many-reconnects")
	}
	id := 0
	// stratum: cameras whose frames are larger than a Lepton's 39040 bytes, one after the other
	// (every per-connection buffer has to be sized for the camera that is connected now)
	big := (r.Prop == "C14" || r.Prop == "C13" || r.Prop == "C11") && r.Chance(1, 30)
	bigDims := [][2]int{{200, 100}, {160, 125}, {142, 138}, {250, 90}, {176, 112}, {320, 256}, {640, 512}, {640, 512}}
	if big {
		nConn = r.OneOf(2, 3)
		r.Probe("stratum-large-frame-cameras")
	}
	// stratum: a very fast camera is connected first (a few frames only), then the usual slow one, with a
	// long max-secs: settings derived for one camera (frames per recording) must not leak into the next
	fastFirst := !big && (r.Prop == "C11" || r.Prop == "C03") && r.Chance(1, 25)
	if fastFirst {
		nConn = 2
		r.Probe("stratum-fast-camera-first")
	}
	for i := 0; i < nConn; i++ {
		cfg := genCfg(r, r.Prop)
		if fastFirst {
			if i == 0 {
				cfg.Fps = r.OneOf(120, 200, 255) // a CPTV header holds the frame rate in 8 bits
				cfg.Preview = 1
				cfg.MaxS = r.Range(65535/cfg.Fps-2, 65535/cfg.Fps+40)
				cfg.MinS = r.Range(1, 3)
				cfg.ThrOn = false
				cfg.WinStart, cfg.WinStop = "12:00", "12:00"
				cfg.MinDiskMB, cfg.SimFree = 0, false
				cfg.Exp = goconfig.DefaultThermalMotion(cfg.Model)
				cfg.MotionKeys = []string{"dynamic-threshold = false", "temp-thresh = 2900", "delta-thresh = 50", "count-thresh = 3", "frame-compare-gap = 1"}
				cfg.Exp.DynamicThreshold, cfg.Exp.TempThresh, cfg.Exp.DeltaThresh, cfg.Exp.CountThresh, cfg.Exp.FrameCompareGap = false, 2900, 50, 3, 1
				cfg.Amp = 400
				cfg.NFrames = r.Range(1, 12)
			} else {
				cfg = sc.Conns[0].Cfg
				cfg.Fps = 1
				cfg.AllMotion = true
				cfg.NFrames = cfg.MaxS + r.Range(3, 60)
			}
		}
		if big {
			cfg.Model = "boson"
			cfg.Exp = goconfig.DefaultThermalMotion(cfg.Model)
			cfg.MotionKeys = []string{"dynamic-threshold = false", "temp-thresh = 2900", "delta-thresh = 50", "count-thresh = 3", "frame-compare-gap = 2"}
			cfg.Exp.DynamicThreshold, cfg.Exp.TempThresh, cfg.Exp.DeltaThresh, cfg.Exp.CountThresh, cfg.Exp.FrameCompareGap = false, 2900, 50, 3, 2
			d := bigDims[r.Draw(len(bigDims))]
			cfg.W, cfg.H = d[0], d[1]
			cfg.ThrOn = false
			if i > 0 {
				// same config.toml, another large camera
				d0 := sc.Conns[0].Cfg
				d0.W, d0.H, d0.Fps = cfg.W, cfg.H, cfg.Fps
				cfg = d0
			}
		}
		if !big && !fastFirst && i > 0 && r.Chance(1, 2) {
			cfg = sc.Conns[0].Cfg // same camera reconnects
			switch r.Draw(4) {
			case 0, 1:
				// ... or another camera is plugged in while the daemon keeps running (config.toml untouched, the
				// Config object is re-used): keys absent from the file take the defaults of the *new* model
				cfg = remodel(r, cfg)
			case 2:
				// ... or [thermal-motion] was edited meanwhile: the daemon keeps running (that section is not
				// watched) and reads it again for the new connection
				fresh := genCfg(r, r.Prop)
				edited := cfg
				edited.MotionKeys = fresh.MotionKeys
				edited.Exp = applyMotionKeys(cfg.Model, fresh.MotionKeys, fresh.Exp)
				edited.Amp = fresh.Amp
				if edited.Preview*edited.Fps+edited.Exp.TriggerFrames > 0 && 2*edited.Exp.EdgePixels+2 <= edited.W && 2*edited.Exp.EdgePixels+2 <= edited.H {
					cfg = edited
					r.Probe("motion-section-edited-between-connections")
				}
			}
		}
		if r.Prop == "C14" {
			cfg.Cont = true
		}
		focus := r.Prop
		if fastFirst && i == 1 {
			focus = "C05" // long stretches of motion
		}
		cn := genConn(r, focus, cfg, id)
		if big {
			// few frames, delivered in large pieces (a byte at a time would take minutes)
			if len(cn.Ev) > 25 {
				cn.Ev = cn.Ev[:25]
			}
			if cfg.W >= 320 && len(cn.Ev) > 6 {
				cn.Ev = cn.Ev[:6] // real Boson sizes: a frame is 160 or 640 KB
			}
			fs := cfg.frameSize()
			cn.Chunks = []int{fs, fs / 3, 2*fs + 17, 4096}[:r.Range(1, 4)]
			if cn.CutAt > 0 {
				cn.CutAt = -1
			}
		}
		if cfg.throttled() {
			var ev []cEvent
			for _, e := range cn.Ev {
				if e.Kind != 'T' {
					ev = append(ev, e)
				}
			}
			cn.Ev = ev
		}
		id += len(cn.Ev) + 10
		sc.Conns = append(sc.Conns, cn)
		if cfg.throttled() {
			break // one connection per throttled run
		}
	}
	for _, cn := range sc.Conns {
		if cn.Cfg.throttled() {
			sc.Conns = []*cConn{cn}
			if r.Chance(1, 3) {
				// the camera daemon restarts with a camera of another frame rate: the budget is counted in
				// frames of the *current* camera (config unchanged)
				cfg2 := cn.Cfg
				cfg2.Fps = r.OneOf(1, 2, 3, 5, 9)
				cn2 := genConn(r, r.Prop, cfg2, 5000)
				var ev []cEvent
				for _, e := range cn2.Ev {
					if e.Kind != 'T' {
						ev = append(ev, e)
					}
				}
				cn2.Ev = ev
				sc.Conns = append(sc.Conns, cn2)
			}
			break
		}
	}
	for i, cn := range sc.Conns {
		r.Set(fmt.Sprintf("conn%d", i), cn.describe())
	}
	res := execPlain(sc)
	checkE2E(r, sc, res)
}

func checkE2E(r *verifsim.Run, sc *cScenario, res *cResult) {
	if res.ParseErr != nil {
		r.Violate("C11", "C11.config", "parse", "the generated config.toml was rejected: %v", res.ParseErr)
		return
	}
	r.SimTime(res.End.Sub(res.Start))
	expByDir := map[string][]wantRec{}
	nBadDelivered := 0
	sent := map[int]*cEvent{}
	var span = [2]time.Time{res.Start, res.End}
	nFilesExpected := 0
	for ci, cn := range sc.Conns {
		if ci >= len(res.Conns) {
			break
		}
		cr := &res.Conns[ci]
		c := &cn.Cfg
		if cr.Panic != "" {
			r.Violate("C12", "C12.panic", "handleConn", "connection %d: panic in the frame loop: %s", ci, cr.Panic)
			r.Violate("C13", "C13.resume", "panic", "connection %d: panic in the frame loop: %s", ci, cr.Panic)
			r.Violate("C14", "C14.panic", "", "connection %d: panic in the frame loop: %s", ci, cr.Panic)
			r.Violate("C11", "C11.panic", "", "connection %d: panic in the frame loop: %s", ci, cr.Panic)
			return
		}
		// C14: header round trip
		h := cr.Header
		if h == nil {
			r.Violate("C14", "C14.header", "nil", "connection %d: no camera description after a complete header", ci)
			return
		}
		got := fmt.Sprintf("%dx%d fps%d size%d brand=%s model=%s serial=%d fw=%q", h.ResX(), h.ResY(), h.FPS(), h.FrameSize(), h.Brand(), h.Model(), h.CameraSerial(), h.Firmware())
		wantH := fmt.Sprintf("%dx%d fps%d size%d brand=%s model=%s serial=%d fw=%q", c.W, c.H, c.Fps, c.frameSize(), "flir", c.Model, c.Serial, c.Firmware)
		if got != wantH {
			r.Violate("C14", "C14.header", "field", "connection %d: camera description read as {%s}, sent {%s}", ci, got, wantH)
			return
		}
		// frames delivered = complete frames sent
		nSent := 0
		for i := range cn.Ev {
			e := &cn.Ev[i]
			if e.Kind == 'F' || e.Kind == 'B' {
				sent[e.ID] = e
				nSent++
			}
		}
		if cn.CutAt >= 0 {
			nSent--
		}
		if len(cr.ProcTimes) != nSent {
			r.Violate("C14", "C14.delivery", "count", "connection %d: %d complete frames were sent, the processor was given %d", ci, nSent, len(cr.ProcTimes))
			return
		}
		if cr.Err == nil {
			r.Violate("C14", "C14.close", "no-error", "connection %d ended but handleConn returned nil", ci)
			return
		}
		// C13: classification of every delivered frame (accepted <=> no zero pixel inside the border)
		k := 0
		for i := range cn.Ev {
			e := &cn.Ev[i]
			if (e.Kind != 'F' && e.Kind != 'B') || k >= nSent || k+1 >= len(cr.Accepted) {
				continue
			}
			accepted := cr.Accepted[k+1] == cr.Accepted[k]+1
			bad := false
			for y := c.Exp.EdgePixels; y < c.H-c.Exp.EdgePixels; y++ {
				for x := c.Exp.EdgePixels; x < c.W-c.Exp.EdgePixels; x++ {
					if e.Pix[y][x] == 0 {
						bad = true
					}
				}
			}
			if accepted == bad {
				sig := "rejected-good"
				if accepted {
					sig = "accepted-bad"
				}
				r.Violate("C13", "C13.classify", sig+":"+c.Model, "connection %d frame id %d (%s, edge %d): zero pixel inside the border=%v but the frame was accepted=%v", ci, e.ID, c.Model, c.Exp.EdgePixels, bad, accepted)
				if r.Failed() {
					return
				}
				break // other properties see the consequence in the files
			}
			if bad {
				nBadDelivered++
				r.Probe("bad-frame-" + c.Model)
			} else if hasZero(e.Pix) {
				r.Probe("border-zero-accepted")
			}
			k++
		}
		recs, tr := reference(cn, cr.ProcTimes, nSent)
		_ = tr
		if c.throttled() {
			var before []string
			if ci > 0 {
				before = res.Conns[ci-1].FilesAfter
			}
			checkThrottledConn(r, cn, cr, recs, res, before)
			if r.Failed() {
				return
			}
		}
		for _, rc := range recs {
			// a recording open when the connection ends is never finished (motion: discarded; others: left as temp files)
			if !rc.Closed {
				continue
			}
			if c.throttled() && rc.Sink == zz.SinkMotion {
				continue // decided by checkThrottledConn
			}
			dir := "."
			if rc.Sink == zz.SinkCont {
				dir = "constant-recordings"
			}
			expByDir[dir] = append(expByDir[dir], wantRec{rc, cn})
			nFilesExpected++
		}
		r.Count("frames", nSent)
		if cn.CutAt >= 0 {
			r.Probe("connection-cut-mid-frame")
		}
		if c.WinStart != c.WinStop {
			r.Probe("window-through-config")
		}
		if c.MinDiskMB >= 1000000 {
			r.Probe("disk-refusal-through-statfs")
		}
		if c.allBorder() {
			r.Probe("edge-border-covers-the-whole-frame")
		}
		if cn.TrailingClear {
			r.Probe("clear-marker-is-the-last-message-of-the-stream")
		}
		if c.SimFree {
			r.Probe(fmt.Sprintf("simulated-disk-free-space: %s the minimum", map[bool]string{true: "at or above", false: "below"}[c.diskOK()]))
			if c.SimFreeMB == c.MinDiskMB {
				r.Probe("simulated-disk-free-space-equals-the-minimum")
			}
		}
		if c.W >= 160 {
			r.Probe("realistic-sensor-size")
		}
		if c.boson() {
			r.Probe("boson")
		} else {
			r.Probe("lepton")
		}
	}
	// actual files per directory, in name (= time) order
	actByDir := map[string][]*cDecoded{}
	for _, f := range res.Final {
		if !strings.HasSuffix(f, ".cptv") {
			continue
		}
		dir := filepath.Dir(f)
		actByDir[dir] = append(actByDir[dir], res.Decoded[f])
	}
	// C13: every bad frame is reported (handleConn's log line precedes the event and the restart request,
	// which go out over D-Bus and are not observable here; their presence in the source is checked statically)
	loadBadFrameBranch()
	if badBranch.phrase == "" {
		r.Probe("bad-frame-branch-has-no-log-line")
	} else if os.Getenv("VERIF_DEBUGLOG") == "" {
		got := strings.Count(res.Log, badBranch.phrase)
		if got != nBadDelivered {
			sig := "missing"
			if got > nBadDelivered {
				sig = "spurious"
			}
			r.Violate("C13", "C13.reported", sig, "%d bad frames were delivered, the daemon's bad-frame branch (event + camera restart request) ran %d times (its log line %q)", nBadDelivered, got, badBranch.phrase)
		} else if nBadDelivered > 0 {
			r.Probe("bad-frame-report-logged")
		}
	}
	checkBadFrameBranch(r)
	checkThrottleEvents(r, res)
	// C13: no bad frame in any file
	badSums := map[uint64]int{}
	for id, e := range sent {
		if e.Kind == 'B' {
			badSums[zz.SumPix(e.Pix)] = id
		}
	}
	for f, d := range res.Decoded {
		for _, fr := range d.Frames {
			if id, ok := badSums[zz.SumPix(fr.Pix)]; ok && !fr.Status.BackgroundFrame {
				r.Violate("C13", "C13.bad-recorded", "file", "bad frame id %d was written to %s", id, f)
				return
			}
		}
	}
	for _, dir := range []string{".", "constant-recordings"} {
		if dir == "." && sc.Conns[0].Cfg.throttled() {
			continue // decided by checkThrottledConn
		}
		exp := expByDir[dir]
		sort.SliceStable(exp, func(i, j int) bool { return false }) // already in connection/start order per sink; merge motion+test by start event below
		if dir == "." {
			sort.SliceStable(exp, func(i, j int) bool {
				if exp[i].cn != exp[j].cn {
					return false
				}
				if exp[i].rec.StartEv != exp[j].rec.StartEv {
					return exp[i].rec.StartEv < exp[j].rec.StartEv
				}
				return exp[i].rec.Sink < exp[j].rec.Sink
			})
		}
		act := actByDir[dir]
		for _, d := range act {
			if d.Err != "" {
				r.Violate("C11", "C11.decode", "", "file %s/%s does not decode with the standard reader: %s", dir, filepath.Base(d.Name), d.Err)
				r.Violate("C10", "C10.incomplete-cptv", "final", "file %s/%s bears the .cptv name but does not decode: %s", dir, filepath.Base(d.Name), d.Err)
				return
			}
		}
		if dir == "." && (r.Prop == "C01" || r.Prop == "C02" || r.Prop == "C03") {
			attributeRecordingRules(r, sc, exp2recs(exp), act, sent)
			if r.Failed() {
				return
			}
		}
		if len(act) != len(exp) {
			var names []string
			for _, d := range act {
				names = append(names, fmt.Sprintf("%s(%d)", filepath.Base(d.Name), len(d.Frames)))
			}
			var wants []string
			for _, e := range exp {
				wants = append(wants, fmt.Sprintf("%s:%d+%d", zz.SinkName[e.rec.Sink], firstOr(e.rec.IDs), len(e.rec.IDs)))
			}
			prop, rule := "C11", "C11.files"
			if dir != "." {
				prop, rule = "C14", "C14.delivery"
			}
			r.Violate(prop, rule, fmt.Sprintf("count:%s", dir), "directory %s holds %d finished recordings %v, the settings and the byte stream call for %d %v", dir, len(act), names, len(exp), wants)
			if dir == "." && sc.Focus == "C04" {
				c0 := &sc.Conns[0].Cfg
				why := "window"
				if c0.MinDiskMB >= 1000000 || c0.SimFree {
					why = "disk"
				}
				r.Violate("C04", "C04.files", why, "window %s-%s, min-disk-space-mb %d: the output directory holds %d finished recordings %v; starts allowed only with the window open and enough disk space call for %d %v", c0.WinStart, c0.WinStop, c0.MinDiskMB, len(act), names, len(exp), wants)
			}
			if len(act) < len(exp) {
				for _, e := range exp {
					if e.rec.ByBad && e.rec.Sink == zz.SinkMotion {
						r.Violate("C13", "C13.closed-file", dir, "a bad frame ended the %s recording that starts with frame id %d, but directory %s holds %d finished recordings %v where %d %v are called for (a bad frame ends the recording in progress with a cleanly closed file)", zz.SinkName[e.rec.Sink], firstOr(e.rec.IDs), dir, len(act), names, len(exp), wants)
						break
					}
				}
			}
			if dir == "." {
				r.Violate("C14", "C14.delivery", "files", "directory %s holds %d finished recordings, expected %d", dir, len(act), len(exp))
				nTest := 0
				for _, e := range exp {
					if e.rec.Sink == zz.SinkTest {
						nTest++
					}
				}
				if nTest > 0 {
					r.Violate("C17", "C17.files", "output-dir", "the output directory holds %d finished recordings %v; with %d test recordings the requests and the byte stream call for %d %v", len(act), names, nTest, len(exp), wants)
				}
			} else {
				r.Violate("C17", "C17.files", "constant-recordings", "constant-recordings holds %d finished files %v, expected %d %v", len(act), names, len(exp), wants)
			}
			return
		}
		for i := range exp {
			before := r.Failed()
			if exp[i].rec.Sink == zz.SinkMotion && r.Prop == "C04" {
				r.Map = func(prop, rule, sig string) (string, string, string) {
					if prop == "C11" && rule == "C11.frames" {
						return "C04", "C04.files", "content:" + sig
					}
					return prop, rule, sig
				}
			}
			if exp[i].rec.Sink != zz.SinkMotion && r.Prop == "C17" {
				r.Map = func(prop, rule, sig string) (string, string, string) {
					if prop == "C11" && (rule == "C11.frames" || rule == "C11.background") {
						return "C17", "C17.file-content", zz.SinkName[exp[i].rec.Sink] + ":" + sig
					}
					return prop, rule, sig
				}
			}
			checkFile(r, exp[i].cn, act[i], &exp[i].rec, sent, span)
			r.Map = nil
			if !before && r.Failed() {
				return
			}
			switch exp[i].rec.Sink {
			case zz.SinkTest:
				r.Probe("test-recording-file-checked")
			case zz.SinkCont:
				r.Probe("continuous-file-checked")
			}
		}
	}
	// C14: the continuous files together are the stream of valid frames, once, in order
	for ci, cn := range sc.Conns {
		if !cn.Cfg.Cont || ci >= len(res.Conns) {
			continue
		}
		r.Probe("continuous-on")
	}
	if nFilesExpected >= 1 {
		sig := ""
		for _, cn := range sc.Conns {
			sig += cn.describe()
		}
		r.Nontrivial(sig)
	}
	r.Count("files", nFilesExpected)
	r.Distinct("c.e2e", fmt.Sprintf("%s:conns%d:files%d", sc.Conns[0].Cfg.Model, len(sc.Conns), nFilesExpected))
}

var _ = bytes.NewReader

func TestVerif(t *testing.T) {
	theT = t
	verifsim.Main(t, unitsC()...)
}

var realC = []string{"cmd/thermal-recorder: ParseConfig, LoadMotionConfig, handleConn, frameParser, convertRawBosonFrame, CPTVFileRecorder (all methods), deleteTempFiles", "headers.ReadHeaderInfo", "motion, throttle, recorder, loglimiter packages", "go-cptv writer/reader/compressor", "lepton3.ParseRawFrame", "go-config + viper + flock on a real config.toml", "window", "real directory tree under VERIF_SCRATCH"}
var stubC = []string{"camera daemon (simulated peer on a net.Pipe speaking the wire protocol, header produced with the yaml.v1 encoder and the headers.* constants)", "clock (testing/synctest fake clock)", "D-Bus: outbound calls fail fast (no system bus); inbound requests are direct calls of the service functions", "free disk space: the real statfs answer, except in C04-focused runs with a simulated disk (free space set exactly at / just above / just below the configured minimum) behind syscall.Statfs", "runMain (listener, periph host init, config watcher) is not executed; its sequence deleteTempFiles -> handleConn per connection is re-enacted"}

func unitsC() []verifsim.Unit {
	return []verifsim.Unit{
		{
			Name: "C.log", Props: []string{"C20"}, Run: runCLog, MinimiseRuns: 30,
			Rule:    "one case = the daemon (real handleConn, config.toml with the recording window closed or opening during the run) fed 80-700 frames of continuous motion at 1-2 fps (up to ~12 simulated minutes) with occasional test-recording requests; the daemon's captured log is compared line by line with R-log applied to the refused starts and test-recording starts at the instants the daemon read the clock; non-trivial = at least three expected lines; distinct = window + frames + expected line string",
			Measure: "expected line strings",
			Real:    realC, Stub: stubC,
			Assumptions: []string{"log lines are recognised by their text (the daemon's other log lines are ignored)"},
		},
		{
			Name: "C.dirfault", Props: []string{"C12"}, Run: runCDirFault, MinimiseRuns: 30,
			Rule:    "spot check with the real storage layer: one connection, three real CPTVFileRecorders (continuous on/off, throttle on/off), test-recording requests and bad frames; the output directory is renamed away at a seeded frame and renamed back later (file creation, disk check and the final rename fail in between), followed by a fault-free quiet-burst-quiet suffix; no panic, every *.cptv decodes, the burst is recorded; non-trivial = every run",
			Measure: "-",
			Real:    realC, Stub: stubC,
			Assumptions: []string{"storage failures are provoked through the file system namespace (rename of the output directory); EIO/ENOSPC below go-cptv are not injected"},
		},
		{
			Name: "C.crash", Props: []string{"C10"}, Run: runCCrash, MinimiseRuns: 40,
			Rule:    "one case = 1-2 camera connections (motion recordings, continuous recorder on/off, test-recording requests, connection loss in the middle of a frame, reconnects) under the seeded scheduler; at EVERY quiescent point (every yield of the instrumented files) the observer lists the output tree and fully decodes each newly seen *.cptv; at seeded quiescent points (denser inside cptvfilerecorder.go) the tree is copied (= the state kill -9 leaves), the start-up clean-up is run on the copy and everything left must be a complete *.cptv; non-trivial = at least one crash point; distinct = interleaving signature + crash points",
			Measure: "c10.interleaving = distinct context-switch sequences",
			Real:    realC, Stub: stubC,
			Assumptions: []string{"crash = process kill: files hold exactly the bytes already written with write(2); power loss (no fsync modelling) and ENOSPC are not claimed", "crash granularity = statements of the repository files; go-cptv calls are atomic steps (the library never touches a final name)"},
		},
		{
			Name: "C.race", Props: []string{"C16"}, Run: runCRace, MinimiseRuns: 1,
			Rule:    "race pass: the C.snap scenario family built with -race, scheduler off, tasks really concurrent with seeded Gosched perturbation; every 'WARNING: DATA RACE' report with a repository frame is a violation whose signature is the pair of innermost repository functions; non-trivial = every run; distinct = scenario",
			Measure: "race reports by signature",
			Real:    realC, Stub: stubC,
			Assumptions: []string{"the interleaving of the race pass is chosen by the Go runtime, not by the simulator: the report replays (happens-before detector), the execution does not"},
		},
		{
			Name: "C.snap", Props: []string{"C16", "C17"}, Run: runCSnap, MinimiseRuns: 60,
			Rule:    "one case = 1-3 camera connections of uniform-valued frames (all pixels = frame number, so any mixture is visible; bad frames and clear markers included) + 1-3 client tasks issuing TakeSnapshot / TakeTestRecording / CameraInfo at tape-chosen instants of the scheduler's step clock; the seeded scheduler interleaves clients, camera and frame loop at statement granularity of the instrumented files; non-trivial = at least one request and one frame; distinct = interleaving signature (sequence of context switches with the statement labels)",
			Measure: "c16.interleaving = distinct context-switch sequences (task, label)",
			Real:    realC, Stub: stubC,
			Assumptions: []string{"ring capacity >= 2 (preview-secs*fps + trigger-frames >= 2)", "scheduling points are the statements of the instrumented repository files; go-cptv, lepton3 and library calls are atomic steps", "requests are direct calls of the exported service methods (D-Bus transport stubbed)"},
		},
		{
			Name: "C.trunc", Props: []string{"C14"}, Run: runCTrunc, MinimiseRuns: 20,
			Rule:    "one case = one generated camera description encoded with the camera daemon's YAML encoder; EVERY truncation point of that header is enumerated (connection closed after k bytes, k = 0..len-1, written in seeded chunk sizes), each in its own bubble; plus a static comparison of cmd/leptond's marker constant and header keys with the recorder's; non-trivial = every case; distinct = header text",
			Measure: "c.trunc = (header length, chunk size, stale description from an earlier connection)",
			Real:    realC, Stub: stubC,
			Assumptions: []string{"leptond's sendCameraSpecs cannot be executed (SPI hardware): marker and header keys are compared statically (AST), labelled static"},
		},
		{
			Name: "C.e2e", Props: []string{"C11", "C14", "C13", "C17", "C12", "C10", "C04", "C05", "C06", "C01", "C02", "C03"}, Run: runCE2E, MinimiseRuns: 60,
			Rule:    "one case = 1-2 camera connections, each with generated config.toml (device, location, recorder, motion keys present or left to the camera-model default, throttle on with an ample bucket or off) + generated camera description (lepton3 / lepton3.5 / boson) + frame stream (scene with a warm blob, bad frames, clear markers, test-recording requests) cut into seeded chunk sizes, optionally cut in the middle of the last frame; every finished .cptv is decoded with go-cptv's reader and compared with the recordings that the expected settings and the sent frames call for; non-trivial = at least one finished recording; distinct = full scenario description",
			Measure: "c.e2e = (camera model, connections, finished files)",
			Real:    realC, Stub: stubC,
			Assumptions: []string{"processing a frame costs 1-20 ms of simulated time and a file start at least 1 ms (on the target a frame costs well over a millisecond); without it two recorders of one directory can collide on the millisecond-resolution file name", "expected recordings are computed by the real motion package (decided on its own by the world-A checks) fed by an independent parser with the expected settings"},
		},
	}
}

// ---- unit C.trunc : C14 header truncation (enumerated) + static agreement of both daemons ----

func runCTrunc(r *verifsim.Run) {
	cfg := genCfg(r, "C14")
	cfg.Cont = r.Chance(1, 2)
	hdr := cfg.headerBytes()
	r.Set("header", string(hdr))
	root, err := os.MkdirTemp(scratchRoot(), "vt")
	if err != nil {
		panic(err)
	}
	defer os.RemoveAll(root)
	confDir := filepath.Join(root, "etc")
	outDir := filepath.Join(root, "out")
	os.MkdirAll(confDir, 0755)
	os.MkdirAll(outDir, 0755)
	os.WriteFile(filepath.Join(confDir, goconfig.ConfigFileName), []byte(cfg.toml(outDir)), 0644)
	chunk := r.OneOf(1, 2, 3, 7, 1000)
	resetProcessGlobals()
	// a previous, complete connection may have left a description behind: it must not survive a failed header
	stale := r.Chance(1, 2)
	for cut := 0; cut < len(hdr); cut++ {
		var herr error
		var took time.Duration
		returned := false
		bubble(func(t *testing.T) {
			conf, err := ParseConfig(confDir)
			if err != nil {
				panic(err)
			}
			if stale {
				headerInfo, _ = headers.ReadHeaderInfo(bufioReader(hdr))
			}
			a, b := net.Pipe()
			t0 := time.Now()
			go func() {
				defer b.Close()
				p := hdr[:cut]
				for len(p) > 0 {
					n := chunk
					if n > len(p) {
						n = len(p)
					}
					if _, err := b.Write(p[:n]); err != nil {
						return
					}
					p = p[n:]
					time.Sleep(time.Millisecond)
				}
			}()
			done := make(chan struct{})
			go func() {
				defer close(done)
				herr = handleConn(a, conf)
				returned = true
				a.Close()
			}()
			select {
			case <-done:
			case <-time.After(time.Hour):
			}
			took = time.Since(t0)
		})
		r.Count("truncation_points", 1)
		switch {
		case !returned:
			r.Violate("C14", "C14.truncated-header", "hang", "header cut after %d of %d bytes and the connection closed: handleConn did not return within an hour of simulated time", cut, len(hdr))
		case herr == nil:
			r.Violate("C14", "C14.truncated-header", "no-error", "header cut after %d of %d bytes: handleConn returned no error", cut, len(hdr))
		case headerInfo != nil:
			r.Violate("C14", "C14.truncated-header", "partial-description", "header cut after %d of %d bytes: a camera description is left behind (%dx%d model %q)", cut, len(hdr), headerInfo.ResX(), headerInfo.ResY(), headerInfo.Model())
		case len(listTree(outDir)) != 0 || dirExists(filepath.Join(outDir, "constant-recordings")):
			r.Violate("C14", "C14.truncated-header", "recorder-started", "header cut after %d of %d bytes: files/directories were created: %v", cut, len(hdr), listTree(outDir))
		}
		if r.Failed() {
			return
		}
		_ = took
		if cut > 0 && hdr[cut-1] == '\n' {
			r.Probe("truncation-at-line-end")
		}
	}
	r.Probe("header-truncations-enumerated")
	checkDaemonsAgree(r)
	r.Nontrivial(string(hdr))
	r.Distinct("c.trunc", fmt.Sprintf("len%d:chunk%d:stale%v", len(hdr), chunk, stale))
}

func dirExists(p string) bool {
	st, err := os.Stat(p)
	return err == nil && st.IsDir()
}

// ---- scheduled execution (task scheduler decides every interleaving) ---------------------

type cRequest struct {
	Kind     byte // 's' TakeSnapshot, 't' TakeTestRecording, 'i' CameraInfo
	Client   int
	Invoke   int // scheduler step at invocation
	Return   int
	Err      string
	Value    int // uniform pixel value of the returned frame (-1: none, -2: not uniform)
	Torn     string
	FrameNum int // Status.FrameCount of the returned frame
	Info     map[string]interface{}
	Conn     int
}

type cSchedResult struct {
	cResult
	Reqs      []cRequest
	StartStep []int // per delivered frame (global index over connections): step at Process entry
	DoneStep  []int // step at which Process had returned
	FrameVal  []int // uniform value of that frame (0 for non-uniform scenes)
	ConnStep  []int // step at which handleConn was entered, per connection
	Deadlock  string
	Steps     int
	Switches  int
	Sig       uint64
	Served    map[string]int
	TaskPanic string
	ObsErr    *verifsim.Violation
	Triggers  bool // the daemon's own periodic test-recording triggers ran
}

type cSchedOpts struct {
	Clients  int
	ReqGaps  [][]int                                                   // per client: step-clock gaps between requests
	ReqKinds [][]byte                                                  // per client
	Observe  func(s *verifsim.Sched, outDir string, res *cSchedResult) // called at every quiescent point
	MaxFree  int
	Stalls   []int // optional: stall the frame loop for n steps at the k-th quiescent point (pairs k,n)
	Triggers bool  // also run the real snapshotRecordingTriggers as a task
}

func uniformValue(f *cptvframe.Frame) (int, string) {
	if f == nil {
		return -1, ""
	}
	v := f.Pix[0][0]
	for y := range f.Pix {
		for x := range f.Pix[y] {
			if f.Pix[y][x] != v {
				return -2, fmt.Sprintf("pixel (0,0)=%d but (%d,%d)=%d", v, y, x, f.Pix[y][x])
			}
		}
	}
	return int(v), ""
}

func execSched(r *verifsim.Run, sc *cScenario, opt cSchedOpts) *cSchedResult {
	res := &cSchedResult{cResult: cResult{Decoded: map[string]*cDecoded{}}}
	root := os.Getenv("VERIF_FIXED_ROOT") // child of the real-kill validation: the parent inspects this directory
	if root == "" {
		var err error
		root, err = os.MkdirTemp(scratchRoot(), "vs")
		if err != nil {
			panic(err)
		}
		defer os.RemoveAll(root)
	}
	confDir := filepath.Join(root, "etc")
	outDir := filepath.Join(root, sc.outName())
	os.MkdirAll(confDir, 0755)
	os.MkdirAll(outDir, 0755)
	res.OutDir = outDir
	resetProcessGlobals()
	var pipes []net.Conn
	func() {
		defer func() {
			if p := recover(); p != nil && res.Deadlock == "" {
				res.Deadlock = fmt.Sprint(p)
			}
		}()
		bp := bubble(func(t *testing.T) {
			res.Start = time.Now()
			s := verifsim.NewSched(r)
			defer s.Close()
			if opt.MaxFree >= 0 {
				s.MaxFree = opt.MaxFree
			}
			verifsim.PanicHandler = func(task string, p interface{}) {
				if res.TaskPanic == "" {
					res.TaskPanic = fmt.Sprintf("task %s: %v", task, p)
				}
			}
			var loopTask *verifsim.Task
			curConn := 0
			loopEnded := false
			inProcess := false
			nProc := 0
			var curCn *cConn
			verifsim.Hook = func(label string) {
				switch {
				case label == "motion/motionprocessor.go:Process:entry":
					res.StartStep = append(res.StartStep, s.Steps)
					res.DoneStep = append(res.DoneStep, 1<<30)
					inProcess = true
					if curCn != nil {
						time.Sleep(time.Duration(curCn.Costs[nProc%len(curCn.Costs)]) * time.Millisecond)
					}
					nProc++
				case inProcess && strings.HasPrefix(label, "cmd/thermal-recorder/main.go:handleConn:"):
					res.DoneStep[len(res.DoneStep)-1] = s.Steps
					inProcess = false
				case label == "cmd/thermal-recorder/cptvfilerecorder.go:StartRecording:entry":
					time.Sleep(time.Millisecond)
				case label == "cmd/thermal-recorder/main.go:handleConn:entry":
					res.ConnStep = append(res.ConnStep, s.Steps)
				}
			}
			defer func() { verifsim.Hook = nil }()
			if opt.Observe != nil {
				s.Between = func(s *verifsim.Sched) { opt.Observe(s, outDir, res) }
			}
			loopTask = s.Go("frame-loop", func() {
				defer func() { loopEnded = true }()
				var conf *Config
				for ci, cn := range sc.Conns {
					curConn = ci
					curCn = cn
					if err := os.WriteFile(filepath.Join(confDir, goconfig.ConfigFileName), []byte(cn.Cfg.toml(outDir)), 0644); err != nil {
						panic(err)
					}
					// as runMain: one Config object for all connections while config.toml (motion section aside) is unchanged
					if ci == 0 || cn.Cfg.tomlSansMotion(outDir) != sc.Conns[ci-1].Cfg.tomlSansMotion(outDir) {
						var err error
						conf, err = ParseConfig(confDir)
						if err != nil {
							res.ParseErr = err
							return
						}
					}
					if ci == 0 {
						startupCleanup(conf.OutputDir)
					}
					if ci == 0 && opt.Triggers {
						// the daemon's own periodic test-recording triggers (real snapshotRecordingTriggers, finite-window path)
						win := conf.Recorder.Window
						s.Go("window-triggers", func() { snapshotRecordingTriggers(win) })
					}
					a, b := net.Pipe()
					pipes = append(pipes, a, b)
					s.Go(fmt.Sprintf("camera%d", ci), func() { cameraSched(cn, b) })
					cr := cConnResult{}
					func() {
						defer func() {
							if p := recover(); p != nil {
								if verifsim.IsAbort(p) {
									panic(p) // scheduler abort must propagate
								}
								cr.Panic = fmt.Sprint(p)
							}
						}()
						cr.Err = handleConn(a, conf)
					}()
					a.Close()
					cr.Header = headerInfo
					res.Conns = append(res.Conns, cr)
					if cr.Panic != "" {
						return
					}
					verifsim.Yield("between-connections")
				}
			})
			_ = loopTask
			svc := &service{}
			for ci := 0; ci < opt.Clients; ci++ {
				ci := ci
				s.Go(fmt.Sprintf("client%d", ci), func() {
					last := -1
					for k := range opt.ReqGaps[ci] {
						if g := opt.ReqGaps[ci][k]; g >= 0 {
							verifsim.SleepSteps(g)
						} else {
							// a gap counted in frames: wait until the frame loop has finished -g more frames (or has ended).
							// (The step clock runs ahead whenever the loop waits for the camera, so gaps in steps bunch
							// all requests at the start of a run.)
							target := len(res.DoneStep) - g
							for len(res.DoneStep) < target && !loopEnded {
								verifsim.SleepSteps(7)
							}
						}
						rq := cRequest{Kind: opt.ReqKinds[ci][k], Client: ci, Invoke: s.Steps, Value: -1, Conn: curConn}
						switch rq.Kind {
						case 's':
							f, derr := svc.TakeSnapshot(last)
							if derr != nil {
								rq.Err = fmt.Sprint(derr.Body...)
							} else if f != nil {
								rq.Value, rq.Torn = uniformValue(f)
								rq.FrameNum = f.Status.FrameCount
								if last >= 0 && rq.FrameNum < last {
									r.Probe("snapshot-frame-counter-restarted-after-reconnect")
								}
								last = f.Status.FrameCount
							}
						case 't':
							if derr := svc.TakeTestRecording(); derr != nil {
								rq.Err = fmt.Sprint(derr.Body...)
							}
						case 'i':
							m, derr := svc.CameraInfo()
							if derr != nil {
								rq.Err = derr.Name
							}
							rq.Info = m
						}
						rq.Return = s.Steps
						res.Reqs = append(res.Reqs, rq)
					}
				})
			}
			s.Run()
			res.Deadlock = s.Deadlock
			res.Steps, res.Switches, res.Sig, res.Served = s.Steps, s.Switches, s.Signature(), s.Served
			res.Triggers = opt.Triggers
			if w := s.RecursiveRLockWriter(); w != "" && res.Deadlock == "" {
				res.Deadlock = fmt.Sprintf("deadlock (latent): recursive read lock by %s while task %s takes the write side of the same lock in this run - the schedule in which the writer arrives between the two RLock calls blocks both for ever", s.RecursiveRLock, w)
			}
			res.End = time.Now()
			if s.Aborted() {
				// unblock tasks that sit in pipe reads/writes so that the bubble can end
				for _, c := range pipes {
					c.Close()
				}
			}
		})
		if bp != "" && res.Deadlock == "" && !r.Failed() {
			res.Deadlock = bp
		}
	}()
	verifsim.SetMode(verifsim.ModeOff)
	verifsim.Hook = nil
	res.Final = listTree(outDir)
	for _, f := range res.Final {
		if strings.HasSuffix(f, ".cptv") {
			res.Decoded[f] = decodeCPTV(filepath.Join(outDir, f))
		}
	}
	return res
}

// cameraSched is cameraPlain as a scheduled task (yields after every blocking call;
// test-recording requests are issued by client tasks instead).
func cameraSched(cn *cConn, conn net.Conn) {
	defer conn.Close()
	c := &cn.Cfg
	period := time.Second / time.Duration(c.Fps)
	var pending []byte
	owed := time.Duration(0)
	ci := 0
	flush := func(all bool) bool {
		for len(pending) > 0 {
			n := cn.Chunks[ci%len(cn.Chunks)]
			if n > len(pending) {
				if !all {
					return true
				}
				n = len(pending)
			}
			ci++
			_, err := conn.Write(pending[:n])
			verifsim.Yield("camera:after-write")
			if err != nil {
				return false
			}
			pending = pending[n:]
		}
		return true
	}
	pending = append(pending, c.headerBytes()...)
	lastFrame := -1
	for i := range cn.Ev {
		if cn.Ev[i].Kind == 'F' || cn.Ev[i].Kind == 'B' {
			lastFrame = i
		}
	}
	for i := range cn.Ev {
		e := &cn.Ev[i]
		switch e.Kind {
		case 'C':
			pending = append(pending, []byte("clear")...)
		case 'F', 'B':
			raw := cn.rawFrame(e)
			if i == lastFrame && cn.CutAt >= 0 {
				raw = raw[:cn.CutAt]
			}
			pending = append(pending, raw...)
			owed += period
			if !flush(false) {
				return
			}
			if len(pending) == 0 {
				time.Sleep(owed)
				verifsim.Yield("camera:after-sleep")
				owed = 0
			}
		}
	}
	flush(true)
	time.Sleep(owed + period)
	verifsim.Yield("camera:done")
}

// checkThrottledConn: world-C half of C05/C06 — throttling activated through config.toml and
// main.go's wiring, token bucket on the bubble clock. The motion files must (1) consist of
// frames of the unthrottled recordings, in order, pixel-exact; (2) obey the stated bound over
// every interval (write instants = the instants at which the daemon processed the frames);
// (3) hold at least a minimum clip (min-secs+preview-secs) when cut by the throttle.
func checkThrottledConn(r *verifsim.Run, cn *cConn, cr *cConnResult, recs []refRec, res *cResult, before []string) {
	existed := map[string]bool{}
	for _, f := range before {
		existed[f] = true
	}
	created := map[string]bool{}
	for _, f := range cr.FilesAfter {
		if !existed[f] {
			created[f] = true
		}
	}
	c := &cn.Cfg
	M := (c.MinS + c.Preview) * c.Fps
	C := (float64(c.BucketS) + float64(c.BucketMs)/1000) * float64(c.Fps) // bucket-size x fps
	rho := float64(M) / float64(c.RefillS)
	byTimeOn := map[time.Duration]*cEvent{}
	procTime := map[int]time.Time{}
	k := 0
	for i := range cn.Ev {
		e := &cn.Ev[i]
		if e.Kind == 'F' || e.Kind == 'B' {
			byTimeOn[e.Tel.TimeOn()] = e
			if k < len(cr.ProcTimes) {
				procTime[e.ID] = cr.ProcTimes[k].Add(time.Duration(cn.Costs[k%len(cn.Costs)]) * time.Millisecond)
			}
			k++
		}
	}
	// reference motion recordings: id -> (recording index, position)
	type pos struct{ rec, i int }
	where := map[int]pos{}
	var motionRecs []refRec
	for _, rc := range recs {
		if rc.Sink == zz.SinkMotion {
			for i, id := range rc.IDs {
				where[id] = pos{len(motionRecs), i}
			}
			motionRecs = append(motionRecs, rc)
		}
	}
	var files []string
	for _, f := range res.Final {
		if strings.HasSuffix(f, ".cptv") && filepath.Dir(f) == "." && created[f] {
			files = append(files, f) // files finished during this connection
		}
	}
	if r.Replay {
		for i, rc := range motionRecs {
			r.Logf("reference motion recording %d: ids %v closed=%v startEv=%d", i, rc.IDs, rc.Closed, rc.StartEv)
		}
		for _, rc := range recs {
			if rc.Sink != zz.SinkMotion {
				r.Logf("reference %s recording: ids %v closed=%v", zz.SinkName[rc.Sink], rc.IDs, rc.Closed)
			}
		}
		r.Logf("final files %v", res.Final)
	}
	var wt []time.Time
	nCut := 0
	for _, f := range files {
		d := res.Decoded[f]
		if d.Err != "" {
			r.Violate("C06", "C06.pairing", "file:undecodable", "throttled file %s does not decode: %s", f, d.Err)
			return
		}
		frames := d.Frames
		if d.HasBg && len(frames) > 0 {
			frames = frames[1:]
		}
		var ids []int
		for i, fr := range frames {
			e := byTimeOn[fr.Status.TimeOn]
			if e == nil || !samePix(fr.Pix, e.Pix) {
				r.Violate("C06", "C06.transparent", "file:content", "throttled file %s frame %d is not a frame that was sent (time-on %v)", f, i, fr.Status.TimeOn)
				return
			}
			ids = append(ids, e.ID)
		}
		if r.Replay {
			r.Logf("file %s ids %v", f, ids)
		}
		if len(ids) == 0 {
			r.Violate("C06", "C06.pairing", "file:empty", "throttled file %s holds no frame", f)
			return
		}
		p0, ok := where[ids[0]]
		if !ok {
			r.Violate("C06", "C06.transparent", "file:outside-recording", "throttled file %s starts with frame id %d which the unthrottled daemon would not have recorded", f, ids[0])
			return
		}
		rc := motionRecs[p0.rec]
		// a frame reaches storage when it is processed, but not before its file was started (pre-trigger
		// frames are written at the trigger): the start instant is the timestamp in the file name
		startT, terr := time.ParseInLocation("20060102.150405.000", strings.TrimSuffix(filepath.Base(f), ".cptv"), time.Local)
		if terr != nil {
			r.Violate("C11", "C11.files", "name", "unexpected file name %s", f)
			return
		}
		for i, id := range ids {
			if p0.i+i >= len(rc.IDs) || rc.IDs[p0.i+i] != id {
				r.Violate("C06", "C06.transparent", "file:order", "throttled file %s: frame %d is id %d, expected the next frame of the same recording (every forwarded frame unchanged and in order)", f, i, id)
				return
			}
			at := procTime[id]
			if at.Before(startT) {
				at = startT
			}
			wt = append(wt, at)
		}
		if p0.i+len(ids) < len(rc.IDs) {
			nCut++
			r.Probe("file-cut-by-throttle")
			if len(ids) < M {
				r.Violate("C06", "C06.cut-short", "file", "file %s was cut by the throttle after %d frames; min-secs+preview-secs = %d s at %d fps is %d frames", f, len(ids), c.MinS+c.Preview, c.Fps, M)
				return
			}
		}
		if p0.i > 0 {
			r.Probe("file-restarted-mid-trigger")
		}
	}
	sort.Slice(wt, func(i, j int) bool { return wt[i].Before(wt[j]) })
	for n := 1; n <= len(wt); n++ {
		for j := n - 1; j >= 0; j-- {
			cnt := float64(n - j)
			dt := wt[n-1].Sub(wt[j]).Seconds()
			if cnt > C+1.01*rho*dt+2 {
				r.Violate("C05", "C05.bound", "files", "%v frames of the motion files were processed within %.3fs; bound is capacity %v + 1.01 x %.4f x %.3f + 2 = %.2f (throttling activated through config.toml)", cnt, dt, C, rho, dt, C+1.01*rho*dt+2)
				return
			}
		}
	}
	// the unthrottled daemon would have stored more than the bucket allows? then the run exercised the throttle
	total := 0
	for _, rc := range motionRecs {
		if rc.Closed {
			total += len(rc.IDs)
		}
	}
	if float64(total) > C+2 {
		r.Probe("throttle-exercised-through-config")
	}
	r.Count("throttled_files", len(files))
	_ = nCut
}

type wantRec struct {
	rec refRec
	cn  *cConn
}

func exp2recs(exp []wantRec) []refRec {
	var out []refRec
	for _, e := range exp {
		out = append(out, e.rec)
	}
	return out
}

// attributeRecordingRules: world-C half of C01-C03. The finished files of the output directory are
// mapped back to frame ids (Lepton: through TimeOn) and compared with the recordings the expected
// settings call for, so that a defect in how config.toml reaches the processor (min/max/preview
// seconds, trigger frames) is reported by the property it breaks.
func attributeRecordingRules(r *verifsim.Run, sc *cScenario, exp []refRec, act []*cDecoded, sent map[int]*cEvent) {
	if len(sc.Conns) != 1 || sc.Conns[0].Cfg.boson() {
		return
	}
	byTimeOn := map[time.Duration]int{}
	for id, e := range sent {
		byTimeOn[e.Tel.TimeOn()] = id
	}
	var files [][]int
	for _, d := range act {
		if d.Err != "" {
			return
		}
		var ids []int
		for _, fr := range d.Frames {
			if fr.Status.BackgroundFrame {
				continue
			}
			id, ok := byTimeOn[fr.Status.TimeOn]
			if !ok {
				return
			}
			ids = append(ids, id)
		}
		files = append(files, ids)
	}
	same := func(a, b []int) bool {
		if len(a) != len(b) {
			return false
		}
		for i := range a {
			if a[i] != b[i] {
				return false
			}
		}
		return true
	}
	// drop test recordings (they legitimately overlap motion recordings)
	var motionFiles [][]int
	for _, f := range files {
		isTest := false
		for _, e := range exp {
			if e.Sink != 0 && same(e.IDs, f) {
				isTest = true
			}
		}
		if !isTest && len(f) > 0 {
			motionFiles = append(motionFiles, f)
		}
	}
	// ordinal among the accepted frames (bad frames are invisible to the pre-trigger buffer)
	var accepted []int
	for id, e := range sent {
		if e.Kind == 'F' {
			accepted = append(accepted, id)
		}
	}
	sort.Ints(accepted)
	ord := map[int]int{}
	for i, id := range accepted {
		ord[id] = i
	}
	seen := map[int]bool{}
	for k, f := range motionFiles {
		for i, id := range f {
			if i > 0 && ord[id] != ord[f[i-1]]+1 {
				r.Violate("C01", "C01.order", "file:gap", "finished file %d holds frame id %d after %d (not consecutive accepted frames)", k, id, f[i-1])
				return
			}
			if seen[id] {
				r.Violate("C01", "C01.dup", "file", "frame id %d is stored in two recordings of the motion output directory", id)
				return
			}
			seen[id] = true
		}
	}
	// tiling (C01): where the settings and the stream call for a recording that begins right after the
	// previous one ended, the file that ends like it must begin there too
	var prevExp *refRec
	for i := range exp {
		e := &exp[i]
		if e.Sink != 0 || len(e.IDs) == 0 {
			continue
		}
		if prevExp != nil && ord[e.IDs[0]] == ord[prevExp.IDs[len(prevExp.IDs)-1]]+1 {
			for _, f := range motionFiles {
				if f[len(f)-1] == e.IDs[len(e.IDs)-1] && f[0] != e.IDs[0] && ord[f[0]] > ord[e.IDs[0]] {
					r.Violate("C01", "C01.tile", "file:loss", "the recording ending with frame id %d begins with frame id %d although the previous recording ended with frame id %d: the frames in between are in no recording", f[len(f)-1], f[0], prevExp.IDs[len(prevExp.IDs)-1])
					return
				}
			}
		}
		prevExp = e
	}
	for _, e := range exp {
		if e.Sink != 0 || len(e.IDs) == 0 {
			continue
		}
		for _, f := range motionFiles {
			if f[0] == e.IDs[0] && len(f) != len(e.IDs) {
				sig := "file:short"
				if len(f) > len(e.IDs) {
					sig = "file:long"
				}
				r.Violate("C03", "C03.length", sig, "the recording starting with frame id %d holds %d frames; min-secs/max-secs of config.toml call for %d", f[0], len(f), len(e.IDs))
				return
			}
			if f[len(f)-1] == e.IDs[len(e.IDs)-1] && f[0] != e.IDs[0] {
				sig := "file:short"
				if f[0] < e.IDs[0] {
					sig = "file:long"
				}
				r.Violate("C02", "C02.first", sig, "the recording ending with frame id %d starts with frame id %d; preview-secs/trigger-frames of config.toml call for %d", f[len(f)-1], f[0], e.IDs[0])
				return
			}
		}
	}
	r.Probe("world-c-files-mapped-to-frames")
}

// checkThrottleEvents: world-C observation for C06's "exactly one 'throttled' event per suppressed start
// or cut". The event goes to the events service over D-Bus, which the simulation does not have, so each
// attempt ends in the recorder's own "Could not record throttle event" log line: the number of attempts
// must equal the number of throttle decisions the throttler logged. The three texts are looked up in the
// source first (a reworded log line turns the observation off instead of raising an alarm), and the rule
// is skipped on a host that has a system bus.
var throttleTexts struct {
	done                     bool
	ok                       bool
	attempt, suppressed, cut string
}

func checkThrottleEvents(r *verifsim.Run, res *cResult) {
	t := &throttleTexts
	if !t.done {
		t.done = true
		t.attempt, t.suppressed, t.cut = "Could not record throttle event", "recording not started due to throttling", "recording throttled"
		ev, err1 := os.ReadFile(filepath.Join(repoRoot(), "throttle/throttled_event_recorder.go"))
		th, err2 := os.ReadFile(filepath.Join(repoRoot(), "throttle/throttled_recorder.go"))
		busless := os.Getenv("DBUS_SYSTEM_BUS_ADDRESS") == ""
		for _, p := range []string{"/var/run/dbus/system_bus_socket", "/run/dbus/system_bus_socket"} {
			if _, err := os.Stat(p); err == nil {
				busless = false
			}
		}
		t.ok = err1 == nil && err2 == nil && busless &&
			bytes.Count(ev, []byte(`"`+t.attempt)) == 3 && // every exit of WhenThrottled without a bus
			bytes.Count(th, []byte(`log.Print("`+t.suppressed+`")`)) == 1 && bytes.Count(th, []byte(`log.Print("`+t.cut+`")`)) == 1
	}
	if !t.ok || os.Getenv("VERIF_DEBUGLOG") != "" {
		r.Probe("throttle-event-observation-off")
		return
	}
	attempts := strings.Count(res.Log, t.attempt)
	decisions := strings.Count(res.Log, t.suppressed) + strings.Count(res.Log, t.cut)
	if attempts != decisions {
		sig := "missing"
		if attempts > decisions {
			sig = "spurious"
		}
		r.Violate("C06", "C06.events", "daemon:"+sig, "the throttler logged %d throttle decisions (suppressed starts + cuts) but %d 'throttled' events were handed to the events service", decisions, attempts)
	} else if decisions > 0 {
		r.Probe("throttle-events-observed-in-daemon")
	}
}
