//go:build verif

package main

// Unit C.crash (C10): the scheduled daemon with a concurrent directory observer at
// every quiescent point (every yield of the instrumented files) and crash copies:
// the directory tree copied at a yield is byte for byte what kill -9 at that instant
// leaves (only write(2)-en data is in the files); the start-up clean-up is then run
// on the copy.

import (
	"encoding/json"
	"fmt"
	"io"
	"os"
	"os/exec"
	"path/filepath"
	"regexp"
	"strings"
	"syscall"

	"verifsim"
)

var reStamp = regexp.MustCompile(`^\d{8}\.\d{6}\.\d{3}`)

func debrisPattern(rel string) string {
	dir, base := filepath.Dir(rel), filepath.Base(rel)
	return dir + "/" + reStamp.ReplaceAllString(base, "*")
}

func copyTree(src, dst string) error {
	return filepath.Walk(src, func(p string, info os.FileInfo, err error) error {
		if err != nil {
			return err
		}
		rel, _ := filepath.Rel(src, p)
		if info.IsDir() {
			return os.MkdirAll(filepath.Join(dst, rel), 0755)
		}
		in, err := os.Open(p)
		if err != nil {
			return err
		}
		defer in.Close()
		out, err := os.Create(filepath.Join(dst, rel))
		if err != nil {
			return err
		}
		defer out.Close()
		_, err = io.Copy(out, in)
		return err
	})
}

func digestTree(root string) map[string]string {
	out := map[string]string{}
	for _, f := range listTree(root) {
		b, err := os.ReadFile(filepath.Join(root, f))
		if err != nil {
			out[f] = "unreadable"
			continue
		}
		out[f] = fmt.Sprintf("%d:%016x", len(b), verifsim.HashString(string(b)))
	}
	return out
}

// validateKill repeats the run in a child process that SIGKILLs itself at the chosen crash
// point and compares the directory the kernel leaves behind with the in-process crash copy:
// this validates the "crash copy = kill -9 state" equivalence the whole unit rests on.
// A mismatch is a defect of the harness, not of the daemon: it panics (exit 2).
func validateKill(r *verifsim.Run, step int, want map[string]string) {
	dir, err := os.MkdirTemp(scratchRoot(), "vkill")
	if err != nil {
		panic(err)
	}
	defer os.RemoveAll(dir)
	tape, _ := json.Marshal(r.Values())
	tf := filepath.Join(dir, "tape.json")
	os.WriteFile(tf, tape, 0644)
	root := filepath.Join(dir, "root")
	os.MkdirAll(root, 0755)
	cmd := exec.Command(os.Args[0], "-test.run", "^TestVerif$", "-test.timeout", "120s")
	cmd.Env = append(os.Environ(), "VERIF_CHILD_TAPE="+tf, fmt.Sprintf("VERIF_KILL_AT=%d", step), "VERIF_FIXED_ROOT="+root, "VERIF_OUT=", "VERIF_REPLAY=")
	err = cmd.Run()
	killed := false
	if ee, ok := err.(*exec.ExitError); ok {
		if ws, ok := ee.Sys().(syscall.WaitStatus); ok && ws.Signaled() && ws.Signal() == syscall.SIGKILL {
			killed = true
		}
	}
	if !killed {
		panic(fmt.Sprintf("real-kill validation: the child did not die by SIGKILL at step %d (err=%v)", step, err))
	}
	got := digestTree(filepath.Join(root, "out"))
	if fmt.Sprint(got) != fmt.Sprint(want) {
		panic(fmt.Sprintf("real-kill validation FAILED at step %d: kill -9 left %v, the in-process crash copy was %v", step, got, want))
	}
	r.Probe("real-kill-matches-crash-copy")
}

func runCCrash(r *verifsim.Run) {
	sc := &cScenario{Focus: "C10"}
	nConn := r.OneOf(1, 1, 2)
	id := 0
	for i := 0; i < nConn; i++ {
		cfg := genCfg(r, "C10")
		cfg.W, cfg.H = r.Range(4, 6), r.Range(4, 5)
		cfg.Cont = r.Chance(1, 2)
		cfg.ThrOn = false
		if i > 0 && r.Chance(1, 2) {
			cfg = sc.Conns[0].Cfg // the same camera reconnects: the daemon keeps its Config object
		}
		if r.Chance(1, 8) {
			// a camera that reports an over-long firmware string: every file start fails while the header is
			// written (go-cptv refuses strings > 255 bytes) - failed starts must not leave anything named .cptv
			cfg.Firmware = strings.Repeat("firmware build with a very long description ", 7)[:256+r.Draw(40)]
			cfg.Cont = true
			r.Probe("starts-fail-while-writing-the-header")
		}
		cn := genConn(r, "C10", cfg, id)
		if len(cn.Ev) > 50 {
			cn.Ev = cn.Ev[:50]
		}
		// keep motion high so that recordings are in progress most of the time
		id += 200
		sc.Conns = append(sc.Conns, cn)
	}
	var opt cSchedOpts
	opt.Clients = r.OneOf(0, 1)
	opt.MaxFree = r.OneOf(0, 0, 3)
	for ci := 0; ci < opt.Clients; ci++ {
		var gaps []int
		var kinds []byte
		for k, n := 0, r.Range(1, 3); k < n; k++ {
			gaps = append(gaps, r.Range(0, 3000))
			kinds = append(kinds, 't')
		}
		opt.ReqGaps = append(opt.ReqGaps, gaps)
		opt.ReqKinds = append(opt.ReqKinds, kinds)
	}
	for i, cn := range sc.Conns {
		r.Set(fmt.Sprintf("conn%d", i), cn.describe())
	}
	crashEvery := r.OneOf(40, 150, 600)
	if r.Tier == "thorough" {
		crashEvery = r.OneOf(1, 5, 20, 80)
		if crashEvery == 1 {
			// every crash point of a (shortened) scenario is enumerated
			for _, cn := range sc.Conns {
				if len(cn.Ev) > 14 {
					cn.Ev = cn.Ev[:14]
				}
			}
			r.Probe("scenario-with-every-crash-point-enumerated")
		}
	}
	seen := map[string]int64{}
	nCrash, nObs := 0, 0
	killAt := -1 // child mode: kill -9 ourselves at this step
	if v := os.Getenv("VERIF_KILL_AT"); v != "" {
		fmt.Sscanf(v, "%d", &killAt)
	}
	killStep := -1 // parent: the crash point that will be repeated with a real SIGKILL
	var killDigest map[string]string
	crashRoot, err := os.MkdirTemp(scratchRoot(), "vk")
	if err != nil {
		panic(err)
	}
	defer os.RemoveAll(crashRoot)
	opt.Observe = func(s *verifsim.Sched, outDir string, res *cSchedResult) {
		if r.Failed() {
			return
		}
		nObs++
		files := listTree(outDir)
		inProgress := false
		for _, f := range files {
			st, err := os.Stat(filepath.Join(outDir, f))
			if err != nil {
				continue
			}
			if !strings.HasSuffix(f, ".cptv") {
				inProgress = true
				continue
			}
			if sz, ok := seen[f]; ok {
				if sz != st.Size() {
					r.Violate("C10", "C10.cptv-changed", debrisPattern(f), "step %d: %s bears the .cptv name and changed size from %d to %d", s.Steps, f, sz, st.Size())
					s.Abort()
				}
				continue
			}
			seen[f] = st.Size()
			d := decodeCPTV(filepath.Join(outDir, f))
			if d.Err != "" || len(d.Frames) == 0 {
				r.Violate("C10", "C10.incomplete-cptv", "observer:"+debrisPattern(f), "step %d (%s): %s bears the .cptv name but is not a complete recording: %s (%d frames decoded)", s.Steps, s.Where(), f, d.Err, len(d.Frames))
				s.Abort()
				return
			}
			r.Probe("observer-decoded-new-cptv")
		}
		// crash copy
		hot := s.ParkedAt("cptvfilerecorder.go")
		p := crashEvery
		if hot {
			p = crashEvery/8 + 1
		}
		if !r.Chance(1, p) {
			return
		}
		nCrash++
		if killAt >= 0 && s.Steps == killAt {
			syscall.Kill(os.Getpid(), syscall.SIGKILL) // child of the real-kill validation: die here, for real
			select {}
		}
		if killStep < 0 && inProgress && r.Tier == "thorough" && killAt < 0 {
			killStep = s.Steps
			killDigest = digestTree(outDir)
		}
		if inProgress {
			r.Probe("crash-with-recording-in-progress")
		}
		if hot {
			r.Probe("crash-inside-start-write-stop")
		}
		dst := filepath.Join(crashRoot, fmt.Sprintf("c%d", nCrash))
		if err := copyTree(outDir, dst); err != nil {
			panic(err)
		}
		// the daemon restarts: start-up clean-up as runMain performs it
		if err := startupCleanup(dst); err != nil {
			r.Violate("C10", "C10.cleanup-error", "", "start-up clean-up failed after a crash at step %d: %v", s.Steps, err)
			s.Abort()
			return
		}
		for _, f := range listTree(dst) {
			if !strings.HasSuffix(f, ".cptv") {
				r.Violate("C10", "C10.debris", debrisPattern(f), "crash at step %d (%s): after the start-up clean-up %s is still in the output directory (left: %v)", s.Steps, s.Where(), f, listTree(dst))
				continue
			}
			d := decodeCPTV(filepath.Join(dst, f))
			if d.Err != "" || len(d.Frames) == 0 {
				r.Violate("C10", "C10.incomplete-cptv", "after-crash:"+debrisPattern(f), "crash at step %d: %s survives the clean-up but is not a complete recording: %s", s.Steps, f, d.Err)
			}
		}
		os.RemoveAll(dst)
		if r.Failed() {
			s.Abort()
		}
	}
	checkCleanupWired(r)
	if r.Failed() {
		return
	}
	res := execSched(r, sc, opt)
	r.Logf("steps=%d switches=%d sig=%016x crashes=%d observations=%d final=%v", res.Steps, res.Switches, res.Sig, nCrash, nObs, res.Final)
	r.Count("steps", res.Steps)
	r.Count("observations", nObs)
	r.Count("crash_points", nCrash)
	r.SimTime(res.End.Sub(res.Start))
	if r.Failed() {
		return
	}
	if res.TaskPanic != "" {
		r.Violate("C12", "C12.panic", "task", "%s", res.TaskPanic)
		return
	}
	if res.Deadlock != "" {
		r.Violate("C16", "C16.stall", kindOfStall(res.Deadlock), "%s", res.Deadlock)
		return
	}
	// final state: every .cptv decodes
	for f, d := range res.Decoded {
		if d.Err != "" {
			r.Violate("C10", "C10.incomplete-cptv", "final:"+debrisPattern(f), "%s does not decode: %s", f, d.Err)
		}
	}
	if killStep >= 0 && !r.Replay {
		validateKill(r, killStep, killDigest)
	}
	if nCrash > 0 {
		r.Nontrivial(fmt.Sprintf("%016x:%d", res.Sig, nCrash))
	}
	r.Distinct("c10.interleaving", fmt.Sprintf("%016x", res.Sig))
	if len(sc.Conns) > 1 {
		r.Probe("reconnect")
	}
}
