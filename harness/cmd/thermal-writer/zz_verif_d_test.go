//go:build verif

//go:debug asynctimerchan=0

package main

// World D (C18): thermal-writer's handleConn + writer + Builder + bufferedFile on a real
// directory, a simulated camera daemon on a net.Pipe, the synctest fake clock (file
// rotation every minute) and the seeded scheduler deciding how reader and writer
// interleave, with injected writer/reader stalls. A CPTR parser written from the
// statement of C18 (and go-cptv's field codes) reads the result back.

import (
	"bytes"
	"encoding/binary"
	"fmt"
	"io"
	"log"
	"net"
	"os"
	"path/filepath"
	"regexp"
	"sort"
	"strings"
	"sync"
	"testing"
	"testing/synctest"
	"time"

	"github.com/TheCacophonyProject/thermal-recorder/headers"
	zz "github.com/TheCacophonyProject/thermal-recorder/zzverif"
	yamlv1 "gopkg.in/yaml.v1"

	"verifsim"
)

var theT *testing.T

func init() {
	log.SetOutput(io.Discard)
	time.Local = time.FixedZone("+1245", (12*60+45)*60) // local time is neither UTC nor on a whole hour
}

func scratchRoot() string {
	if d := os.Getenv("VERIF_SCRATCH"); d != "" {
		return d
	}
	return os.TempDir()
}

func bubble(f func(t *testing.T)) (panicked string) {
	done := make(chan struct{})
	go func() {
		defer close(done)
		defer func() {
			if p := recover(); p != nil {
				panicked = fmt.Sprint(p)
			}
		}()
		synctest.Test(theT, f)
	}()
	<-done
	return panicked
}

type dConn struct {
	Model, Brand, Firmware string
	W, H, Fps, Serial      int
	FrameSize              int
	N                      int   // complete frames
	Tail                   int   // bytes of a trailing partial frame (0: cut on the frame boundary)
	Chunks                 []int // write sizes, cycled
	Seed                   uint64
	PauseAfter             int // long pause (minutes of fake time) after this many frames (-1 none)
	PauseMin               int
	StallAt                int // the link stalls in the middle of this frame (-1 never) ...
	StallMs                int // ... for so long
}

func (c *dConn) header() []byte {
	specs := map[string]interface{}{
		headers.XResolution: c.W, headers.YResolution: c.H, headers.FrameSize: c.FrameSize, headers.Model: c.Model,
		headers.Brand: c.Brand, headers.FPS: c.Fps, headers.Serial: c.Serial, headers.Firmware: c.Firmware,
	}
	y, err := yamlv1.Marshal(specs)
	if err != nil {
		panic(err)
	}
	return append(y, '\n')
}

// frame k of connection c: unique content everywhere (a recycled buffer that aliases a
// queued frame, or a frame written twice, is visible byte for byte)
func (c *dConn) frame(k int) []byte {
	b := make([]byte, c.FrameSize)
	h := verifsim.Mix(c.Seed, uint64(k))
	for i := range b {
		if i%8 == 0 {
			h = verifsim.Mix(h, uint64(i))
		}
		b[i] = byte(h >> (8 * uint(i%8)))
	}
	if len(b) >= 4 {
		binary.LittleEndian.PutUint32(b, uint32(k))
	}
	return b
}

func genD(r *verifsim.Run) []*dConn {
	var out []*dConn
	nConn := r.OneOf(1, 1, 2, 3)
	for i := 0; i < nConn; i++ {
		c := &dConn{Brand: "flir", Model: []string{"lepton3", "lepton3.5", "boson"}[r.Draw(3)], Firmware: "1.2.3", Serial: r.Draw(100000)}
		c.W, c.H = r.Range(1, 64), r.Range(1, 32)
		c.FrameSize = r.OneOf(1, 2, 5, 64, 100, c.W*c.H*2, r.Range(1, 4096))
		if r.Tier == "thorough" && r.Chance(1, 30) || r.Tier != "thorough" && r.Chance(1, 60) {
			c.W, c.H, c.FrameSize = 640, 512, 640*512*2 // a real Boson frame (the 32 MiB write buffer fills after 51 frames)
		}
		c.Fps = r.OneOf(1, 1, 2, 9, 30, 60)
		c.N = r.OneOf(0, 1, 2, 255, 256, 257, r.Range(0, 40), r.Range(0, 700))
		if c.FrameSize > 100000 && c.N > 120 {
			c.N = r.Range(40, 120)
		}
		if r.Chance(1, 3) {
			c.Tail = r.Range(1, c.FrameSize)
			if c.Tail >= c.FrameSize {
				c.Tail = 0
			}
		}
		for k, n := 0, r.Range(1, 8); k < n; k++ {
			c.Chunks = append(c.Chunks, r.OneOf(1, 2, 3, c.FrameSize-1, c.FrameSize, c.FrameSize+1, 3*c.FrameSize, 300*c.FrameSize, r.Range(1, 5*c.FrameSize)))
		}
		for k := range c.Chunks {
			if c.Chunks[k] < 1 {
				c.Chunks[k] = 1
			}
			if c.FrameSize > 100000 && c.Chunks[k] < 16384 {
				c.Chunks[k] = r.OneOf(16384, 65536, c.FrameSize-1, c.FrameSize, c.FrameSize+1, 2*c.FrameSize+3) // real-size frames are not sent byte by byte
			}
		}
		if c.FrameSize > 100000 && r.Tier != "thorough" && c.N > 70 {
			c.N = r.Range(53, 70) // just past the 32 MiB write buffer
		}
		c.Seed = uint64(r.Draw(1 << 30))
		c.PauseAfter = -1
		if r.Chance(1, 3) && c.N > 0 {
			c.PauseAfter = r.Draw(c.N)
			c.PauseMin = r.Range(1, 3)
		}
		c.StallAt = -1
		if r.Chance(1, 3) && c.N > 0 && c.FrameSize >= 2 {
			c.StallAt = r.Draw(c.N)
			c.StallMs = r.OneOf(1, 100, 1500, 2500, 10000, 59000)
		}
		out = append(out, c)
	}
	return out
}

// ---- CPTR parser written from the statement of C18 --------------------------------------

type cptrFile struct {
	Name   string
	Fields map[byte][]byte
	Frames [][]byte
	Err    string
}

func parseFields(b []byte, n int) (map[byte][]byte, []byte, error) {
	out := map[byte][]byte{}
	for i := 0; i < n; i++ {
		if len(b) < 2 {
			return nil, nil, fmt.Errorf("field %d: truncated", i)
		}
		l, code := int(b[0]), b[1]
		if len(b) < 2+l {
			return nil, nil, fmt.Errorf("field %d (%q): truncated value", i, code)
		}
		out[code] = b[2 : 2+l]
		b = b[2+l:]
	}
	return out, b, nil
}

func parseCPTR(path string) *cptrFile {
	f := &cptrFile{Name: filepath.Base(path)}
	b, err := os.ReadFile(path)
	if err != nil {
		f.Err = err.Error()
		return f
	}
	if len(b) < 7 || string(b[:4]) != "CPTR" {
		f.Err = fmt.Sprintf("bad magic (%d bytes)", len(b))
		return f
	}
	if b[4] != 2 {
		f.Err = fmt.Sprintf("version %d", b[4])
		return f
	}
	if b[5] != 'H' {
		f.Err = fmt.Sprintf("expected header section, got %q", b[5])
		return f
	}
	fields, rest, err := parseFields(b[7:], int(b[6]))
	if err != nil {
		f.Err = "header: " + err.Error()
		return f
	}
	f.Fields = fields
	for len(rest) > 0 {
		if len(rest) < 2 || rest[0] != 'F' {
			f.Err = fmt.Sprintf("frame %d: bad section type %q", len(f.Frames), rest[0])
			return f
		}
		ff, r2, err := parseFields(rest[2:], int(rest[1]))
		if err != nil {
			f.Err = fmt.Sprintf("frame %d: %v", len(f.Frames), err)
			return f
		}
		sz, ok := ff['f']
		if !ok || len(sz) != 4 {
			f.Err = fmt.Sprintf("frame %d: no FrameSize field", len(f.Frames))
			return f
		}
		n := int(binary.LittleEndian.Uint32(sz))
		if n > len(r2) {
			f.Err = fmt.Sprintf("frame %d: length prefix %d but only %d bytes follow", len(f.Frames), n, len(r2))
			return f
		}
		f.Frames = append(f.Frames, r2[:n])
		rest = r2[n:]
	}
	return f
}

// ---- execution ------------------------------------------------------------------------------

type dResult struct {
	Files    []*cptrFile
	Errs     []error
	Deadlock string
	Panic    string
	Steps    int
	Switches int
	Sig      uint64
	MaxQueue int
	Sim      time.Duration
	Rotated  int
}

var reCptr = regexp.MustCompile(`^\d{4}_\d\d_\d\dT\d\d_\d\d_\d\d\.cptr$`)

func execD(r *verifsim.Run, conns []*dConn, sched bool) *dResult {
	res := &dResult{}
	root, err := os.MkdirTemp(scratchRoot(), "vd")
	if err != nil {
		panic(err)
	}
	defer os.RemoveAll(root)
	conf := &Config{DeviceID: 77, DeviceName: "dev-d", OutputDir: root}
	frameLogIntervalFirstMin, frameLogInterval = 15, 60*5
	stallP := r.OneOf(0, 200, 1000, 5000)
	// slow disk exactly when a connection ends: the writer is held back for a while of simulated time with
	// whatever is still queued (the reader has returned or is about to)
	slowEnd := r.Chance(1, 3)
	slowFor := time.Duration(r.OneOf(500, 2500, 10000, 60000)) * time.Millisecond
	readerDone := false
	var pipes []net.Conn
	// leftovers: the output directory already holds (longer) files under the names this run is going to use -
	// the clock of a device without a battery-backed clock repeats after a power cut
	leftovers := r.Chance(1, 6)
	junk := bytes.Repeat([]byte{0xEE, 0x01, 0x7F, 0x00}, 64*1024)
	bp := bubble(func(t *testing.T) {
		t0 := time.Now()
		if leftovers {
			for k := 0; k < 40; k++ {
				os.WriteFile(filepath.Join(root, t0.Add(time.Duration(k)*time.Second).Format("2006_01_02T15_04_05")+".cptr"), junk, 0644)
			}
			r.Probe("leftover-files-under-the-names-to-come")
		}
		var s *verifsim.Sched
		if sched {
			s = verifsim.NewSched(r)
			defer s.Close()
			s.MaxSteps = 3000000
			verifsim.PanicHandler = func(task string, p interface{}) {
				if res.Panic == "" {
					res.Panic = fmt.Sprintf("task %s: %v", task, p)
				}
			}
			var doneAt time.Time
			s.Between = func(s *verifsim.Sched) {
				// bounded liveness: once the reader has returned, the writer must drain and close
				if readerDone {
					if doneAt.IsZero() {
						doneAt = time.Now()
					} else if time.Since(doneAt) > 10*time.Minute {
						s.Fail("writer-never-finished: the disk writer is still running 10 simulated minutes after the connection ended; " + s.Where())
						return
					}
				}
				if stallP > 0 {
					if r.Chance(1, stallP) {
						// stall the disk writer (or, less often, the socket reader) for a while
						prefix := "spawn:"
						if r.Chance(1, 4) {
							prefix = "reader"
						}
						if tk := s.TaskByPrefix(prefix); tk != nil {
							s.Stall(tk, r.OneOf(10, 100, 2000, 40000))
							r.Fault("stall:" + strings.TrimSuffix(prefix, ":"))
						}
					}
				}
			}
		}
		run := func() {
			defer func() { readerDone = true }()
			for ci, c := range conns {
				a, b := net.Pipe()
				pipes = append(pipes, a, b)
				connStart, filesBefore := time.Now(), countFiles(root)
				overlap := false
				cam := func() {
					cameraD(c, b, sched)
					if sched && slowEnd {
						if tk := s.TaskByPrefix("spawn:"); tk != nil {
							s.StallFor(tk, slowFor)
							r.Fault("slow-disk-at-connection-end")
							// A writer that has created its file and cannot reach its one-minute rotation while it is
							// held back keeps to that one file name: the camera may reconnect meanwhile (the next
							// writer starts while this one still has frames queued and its file open)
							if !leftovers && countFiles(root) > filesBefore && time.Since(connStart)+slowFor < 55*time.Second {
								overlap = true
								r.Probe("reconnect-while-the-previous-writer-is-held-back")
							}
						}
					}
				}
				if sched {
					s.Go(fmt.Sprintf("camera%d", ci), cam)
				} else {
					go cam()
				}
				err := handleConn(a, conf, false)
				a.Close()
				res.Errs = append(res.Errs, err)
				// a reconnect takes at least a second (file names have one-second resolution); a writer that is
				// held back at the end of its connection may only now create its file, so the next connection
				// waits that long as well
				gap := time.Duration(1100+r.Draw(3000)) * time.Millisecond
				if slowEnd && !overlap {
					gap += slowFor
				}
				time.Sleep(gap)
				if sched {
					verifsim.Yield("reader:between-connections")
				}
			}
		}
		if sched {
			s.Go("reader", run)
			s.Run()
			res.Deadlock = s.Deadlock
			res.Steps, res.Switches, res.Sig = s.Steps, s.Switches, s.Signature()
			if s.Aborted() {
				for _, c := range pipes {
					c.Close()
				}
			}
		} else {
			run()
			// let the writer goroutines drain and close their files
			time.Sleep(3 * time.Minute)
		}
		res.Sim = time.Since(t0)
	})
	if bp != "" && res.Deadlock == "" {
		res.Deadlock = bp
	}
	verifsim.SetMode(verifsim.ModeOff)
	names, _ := filepath.Glob(filepath.Join(root, "*"))
	sort.Strings(names)
	for _, n := range names {
		if leftovers {
			if b, err := os.ReadFile(n); err == nil && bytes.Equal(b, junk) {
				continue // a leftover whose name was not used
			}
		}
		res.Files = append(res.Files, parseCPTR(n))
	}
	return res
}

func countFiles(dir string) int {
	names, _ := filepath.Glob(filepath.Join(dir, "*"))
	return len(names)
}

func cameraD(c *dConn, conn net.Conn, sched bool) {
	defer conn.Close()
	yield := func(l string) {
		if sched {
			verifsim.Yield(l)
		}
	}
	var pending []byte
	ci := 0
	flush := func(all bool) bool {
		for len(pending) > 0 {
			n := c.Chunks[ci%len(c.Chunks)]
			if n > len(pending) {
				if !all {
					return true
				}
				n = len(pending)
			}
			ci++
			_, err := conn.Write(pending[:n])
			yield("camera:after-write")
			if err != nil {
				return false
			}
			pending = pending[n:]
		}
		return true
	}
	pending = append(pending, c.header()...)
	period := time.Second / time.Duration(c.Fps)
	owed := time.Duration(0)
	for k := 0; k < c.N; k++ {
		pending = append(pending, c.frame(k)...)
		// No camera keeps time to the nanosecond: a jitter of under a microsecond per frame (a function of the
		// scenario, either sign) keeps frame arrivals off the exact instants of timers inside the code under
		// test. Events on one simulated instant would be ordered by the Go runtime (select), not by the tape.
		jit := time.Duration(verifsim.Mix(uint64(k), uint64(c.N*131+c.Fps))%999) - 499
		if jit == 0 {
			jit = 1
		}
		owed += period + jit
		if k == c.PauseAfter {
			owed += time.Duration(c.PauseMin) * time.Minute
		}
		if k == c.StallAt {
			// the link delivers the frame up to somewhere in its middle, then nothing for a while
			rest := append([]byte(nil), pending[len(pending)-c.FrameSize/2:]...)
			pending = pending[:len(pending)-len(rest)]
			if !flush(true) {
				return
			}
			time.Sleep(time.Duration(c.StallMs) * time.Millisecond)
			yield("camera:after-stall")
			pending = rest
		}
		if !flush(false) {
			return
		}
		if len(pending) == 0 {
			time.Sleep(owed)
			yield("camera:after-sleep")
			owed = 0
		}
	}
	if c.Tail > 0 {
		pending = append(pending, c.frame(c.N)[:c.Tail]...)
	}
	flush(true)
	time.Sleep(owed)
	yield("camera:done")
}

// ---- unit D.writer ----------------------------------------------------------------------------

var resetMu sync.Mutex

func runD(r *verifsim.Run) {
	conns := genD(r)
	for i, c := range conns {
		r.Set(fmt.Sprintf("conn%d", i), fmt.Sprintf("%s %dx%d@%d framesize=%d frames=%d tail=%d chunks=%v pause=%d/%dmin stall=%d/%dms", c.Model, c.W, c.H, c.Fps, c.FrameSize, c.N, c.Tail, c.Chunks, c.PauseAfter, c.PauseMin, c.StallAt, c.StallMs))
	}
	res := execD(r, conns, true)
	{
		var fl []string
		for _, f := range res.Files {
			fl = append(fl, fmt.Sprintf("%s:%d", f.Name, len(f.Frames)))
		}
		r.Logf("steps=%d switches=%d sig=%016x files=%v", res.Steps, res.Switches, res.Sig, fl)
	}
	r.Count("steps", res.Steps)
	r.Count("context_switches", res.Switches)
	r.SimTime(res.Sim)
	checkD(r, conns, res)
	r.Distinct("c18.interleaving", fmt.Sprintf("%016x", res.Sig))
}

func checkD(r *verifsim.Run, conns []*dConn, res *dResult) {
	if res.Panic != "" {
		r.Violate("C18", "C18.panic", "", "%s", res.Panic)
		return
	}
	if res.Deadlock != "" {
		sig := "stall"
		if strings.Contains(res.Deadlock, "blocked goroutines remain") || strings.Contains(res.Deadlock, "writer-never-finished") {
			sig = "writer-never-finished"
		}
		r.Violate("C18", "C18.stall", sig, "reader/writer did not run to completion: %s", res.Deadlock)
		return
	}
	total := 0
	for _, c := range conns {
		total += c.N
	}
	// expected stream of complete frames, per connection (a connection's frames are in files whose header carries its model/resolution)
	ci, k := 0, 0
	for ci < len(conns) && conns[ci].N == 0 {
		ci++
	}
	nFrames := 0
	for _, f := range res.Files {
		if !reCptr.MatchString(f.Name) {
			r.Violate("C18", "C18.files", "name", "unexpected file %q in the output directory", f.Name)
			return
		}
		if f.Err != "" {
			r.Violate("C18", "C18.wellformed", classifyCptrErr(f.Err), "%s is not a well-formed CPTR file: %s (%d frame sections parsed)", f.Name, f.Err, len(f.Frames))
			return
		}
		// header fields
		if len(f.Frames) > 0 && ci < len(conns) {
			c := conns[ci]
			want := map[byte]string{'E': c.Model, 'B': c.Brand, 'D': "dev-d"}
			for code, v := range want {
				if string(f.Fields[code]) != v {
					r.Violate("C18", "C18.wellformed", "header-field", "%s: header field %q is %q, expected %q", f.Name, code, f.Fields[code], v)
					return
				}
			}
			if fx, fy := f.Fields['X'], f.Fields['Y']; len(fx) != 4 || len(fy) != 4 || int(binary.LittleEndian.Uint32(fx)) != c.W || int(binary.LittleEndian.Uint32(fy)) != c.H {
				r.Violate("C18", "C18.wellformed", "header-field", "%s: resolution fields %v x %v, expected %d x %d", f.Name, fx, fy, c.W, c.H)
				return
			}
			if fz := f.Fields['Z']; len(fz) != 1 || int(fz[0]) != c.Fps {
				r.Violate("C18", "C18.wellformed", "header-field", "%s: fps field %v, expected %d", f.Name, fz, c.Fps)
				return
			}
			if id := f.Fields['I']; len(id) != 4 || binary.LittleEndian.Uint32(id) != 77 {
				r.Violate("C18", "C18.wellformed", "header-field", "%s: device id field %v", f.Name, id)
				return
			}
			if _, ok := f.Fields['T']; !ok {
				r.Violate("C18", "C18.wellformed", "header-field", "%s: no timestamp field", f.Name)
				return
			}
		}
		for _, fr := range f.Frames {
			if ci >= len(conns) {
				r.Violate("C18", "C18.stream", "extra", "%s holds a frame beyond the %d frames that were sent", f.Name, total)
				return
			}
			c := conns[ci]
			want := c.frame(k)
			if len(fr) != len(want) || string(fr) != string(want) {
				sig := "content"
				// which frame is it, if any?
				for d := -300; d <= 300; d++ {
					if k+d >= 0 && k+d < c.N && string(fr) == string(c.frame(k+d)) {
						if d < 0 {
							sig = "repeated-or-reordered"
						} else {
							sig = "lost-frames"
						}
					}
				}
				r.Violate("C18", "C18.stream", sig, "%s: stored frame %d differs from frame %d of connection %d as sent (stored %d bytes, sent %d)", f.Name, nFrames, k, ci, len(fr), len(want))
				return
			}
			nFrames++
			k++
			for ci < len(conns) && k >= conns[ci].N {
				ci++
				k = 0
			}
		}
	}
	if nFrames != total {
		r.Violate("C18", "C18.stream", "lost-at-end", "%d complete frames were sent, %d are stored (%d files)", total, nFrames, len(res.Files))
		return
	}
	for i, c := range conns {
		if i < len(res.Errs) && res.Errs[i] == nil {
			r.Violate("C18", "C18.stream", "no-error", "connection %d ended but handleConn returned nil", i)
		}
		if c.Tail > 0 {
			r.Probe("connection-cut-mid-frame")
		}
		if c.N > 256 {
			r.Probe("more-frames-than-buffers")
		}
		if c.FrameSize > 100000 && c.N > 52 {
			r.Probe("write-buffer-filled-by-real-size-frames")
		}
	}
	if len(res.Files) > len(conns) {
		r.Probe("file-rotation")
	}
	if len(conns) > 1 {
		r.Probe("reconnect")
	}
	if total > 0 {
		r.Nontrivial(fmt.Sprintf("%016x:%d:%d", res.Sig, total, len(res.Files)))
	}
	r.Count("frames", total)
	r.Count("files", len(res.Files))
}

func classifyCptrErr(e string) string {
	switch {
	case strings.Contains(e, "magic"):
		return "magic"
	case strings.Contains(e, "length prefix"):
		return "truncated-frame"
	case strings.Contains(e, "bad section type"):
		return "framing"
	}
	return "other"
}

// ---- unit D.race: race pass ---------------------------------------------------------------------

func runDRace(r *verifsim.Run) {
	conns := genD(r)
	for _, c := range conns {
		if c.N > 300 {
			c.N = 300
		}
		if c.FrameSize > 4096 {
			c.W, c.H, c.FrameSize = 64, 32, 4096 // the race pass runs ~10x slower; real-size frames belong to the deterministic pass
			if c.Tail >= c.FrameSize {
				c.Tail = c.FrameSize - 1
			}
			for k := range c.Chunks {
				if c.Chunks[k] > 5*c.FrameSize {
					c.Chunks[k] = 5 * c.FrameSize
				}
			}
		}
		c.PauseAfter = -1
		if c.StallMs > 2500 {
			c.StallMs = 2500 // real time in the race pass
		}
	}
	for i, c := range conns {
		r.Set(fmt.Sprintf("conn%d", i), fmt.Sprintf("%s framesize=%d frames=%d tail=%d chunks=%v", c.Model, c.FrameSize, c.N, c.Tail, c.Chunks))
	}
	zz.NewRaceReports()
	verifsim.SetRaceSeed(r.Seed)
	verifsim.SetMode(verifsim.ModeRace)
	res := execD(r, conns, false)
	verifsim.SetMode(verifsim.ModeOff)
	checkD(r, conns, res)
	for _, rep := range zz.NewRaceReports() {
		sig, txt := zz.RaceSignature(rep)
		if sig == "" {
			r.Probe("race-report-outside-repository")
			continue
		}
		if len(txt) > 1800 {
			txt = txt[:1800] + " …"
		}
		r.Logf("race report for %s:\n%s", sig, txt)
		r.Violate("C18", "C18.race", sig, "data race between socket reader and disk writer (innermost repository functions of the two unordered accesses): %s", sig)
	}
	r.Probe("race-pass-run")
	r.Nontrivial(fmt.Sprintf("%v", r.Seed))
}

func TestVerif(t *testing.T) {
	theT = t
	verifsim.Main(t, verifsim.Unit{
		Name: "D.race", Props: []string{"C18"}, Run: runDRace, MinimiseRuns: 1,
		Rule:        "race pass: the D.writer scenario family built with -race, scheduler off, reader and writer really concurrent (GOMAXPROCS 4) with seeded Gosched perturbation; stored bytes are still compared with sent bytes; every race report with a repository frame is a violation (signature = pair of innermost repository functions)",
		Measure:     "race reports by signature",
		Real:        []string{"cmd/thermal-writer: handleConn, writer, newThermalRaw, Builder, bufferedFile"},
		Stub:        []string{"camera daemon (simulated peer on a net.Pipe)", "clock (synctest fake clock)"},
		Assumptions: []string{"the interleaving of the race pass is chosen by the Go runtime: the report replays (happens-before detector), the execution does not"},
	}, verifsim.Unit{
		Name: "D.writer", Props: []string{"C18"}, Run: runD, MinimiseRuns: 60,
		Rule:        "one case = 1-3 camera connections with seeded frame size (1-4096 bytes), frame count (0, 1, 255-257, up to 700), unique frame contents, seeded socket segmentation, optional cut in the middle of a frame, minute-long pauses (file rotation on the fake clock); the seeded scheduler interleaves socket reader and disk writer (goroutine started by the code under test) at statement granularity and injects writer/reader stalls; every *.cptr is parsed with a CPTR parser written from the statement and compared byte for byte with what was sent; non-trivial = at least one frame; distinct = interleaving signature + frames + files",
		Measure:     "c18.interleaving = distinct context-switch sequences",
		Real:        []string{"cmd/thermal-writer: handleConn, writer, newThermalRaw, Builder, bufferedFile", "headers.ReadHeaderInfo", "go-cptv FieldWriter", "real directory under VERIF_SCRATCH"},
		Stub:        []string{"camera daemon (simulated peer on a net.Pipe)", "clock (synctest fake clock)", "goroutine scheduling (seeded scheduler over AST-inserted yields; channel operations and file writes are atomic steps)", "ParseConfig/runMain are not executed (Config struct passed directly)"},
		Assumptions: []string{"a reconnect takes at least one second (output file names have one-second resolution; a faster reconnect would overwrite the previous file - observation, outside C18's quantifier)"},
	})
}
