//go:build verif

// Package zzverif holds the parts of the simulation harness that are shared by
// the in-package harnesses of motion, throttle, cmd/thermal-recorder and
// cmd/thermal-writer: the simulated camera (wire formats), fault-injecting
// sinks with their traces, reference models and the oracle rules. It is added to
// the repository module through -overlay; nothing of it exists in /repo.
package zzverif

import (
	"encoding/binary"
	"time"

	"github.com/TheCacophonyProject/lepton3"
)

// Cam is a cptvframe.CameraSpec.
type Cam struct{ W, H, Fps int }

func (c Cam) ResX() int { return c.W }
func (c Cam) ResY() int { return c.H }
func (c Cam) FPS() int  { return c.Fps }

// LeptonTelemetryBytes is the size of the telemetry block that precedes the
// pixels of a raw Lepton frame (4 VoSPI packets of 160 bytes).
const LeptonTelemetryBytes = lepton3.BytesPerFrame - lepton3.FrameCols*lepton3.FrameRows*2

// Tel is the part of the Lepton telemetry that the recorder reads.
type Tel struct {
	TimeOnMs   uint32
	LastFFCMs  uint32
	FrameCount uint32
	FrameMean  uint16
	FPATemp    uint16 // centi-Kelvin
	FPATempFFC uint16 // centi-Kelvin
	StatusBits uint32
	Noise      uint16 // written into words the recorder must ignore
}

func (t Tel) TimeOn() time.Duration      { return time.Duration(t.TimeOnMs) * time.Millisecond }
func (t Tel) LastFFCTime() time.Duration { return time.Duration(t.LastFFCMs) * time.Millisecond }
func (t Tel) TempC() float64             { return float64(int(t.FPATemp)-27315) / 100 }
func (t Tel) LastFFCTempC() float64      { return float64(int(t.FPATempFFC)-27315) / 100 }

func put16(b []byte, word int, v uint16) { binary.BigEndian.PutUint16(b[word*2:], v) }
func put32(b []byte, word int, v uint32) {
	put16(b, word, uint16(v))
	put16(b, word+1, uint16(v>>16))
}

// LeptonRawSize is the length of a raw Lepton frame of the given resolution as
// the simulated camera sends it (telemetry block + big-endian pixels).
func LeptonRawSize(w, h int) int { return LeptonTelemetryBytes + w*h*2 }

// PutLeptonTelemetry encodes t at the word offsets of the Lepton telemetry row A.
func PutLeptonTelemetry(raw []byte, t Tel) {
	for i := 0; i < LeptonTelemetryBytes/2; i++ {
		put16(raw, i, t.Noise)
	}
	put16(raw, 0, 0x000e)
	put32(raw, 1, t.TimeOnMs)
	put32(raw, 3, t.StatusBits)
	put32(raw, 20, t.FrameCount)
	put16(raw, 22, t.FrameMean)
	put16(raw, 24, t.FPATemp)
	put16(raw, 29, t.FPATempFFC)
	put32(raw, 30, t.LastFFCMs)
}

// PutLeptonPixels writes pixels big-endian after the telemetry block.
func PutLeptonPixels(raw []byte, pix [][]uint16) {
	i := LeptonTelemetryBytes
	for _, row := range pix {
		for _, v := range row {
			raw[i] = byte(v >> 8)
			raw[i+1] = byte(v)
			i += 2
		}
	}
}

// PutBosonPixels writes pixels little-endian from offset 0.
func PutBosonPixels(raw []byte, pix [][]uint16) {
	i := 0
	for _, row := range pix {
		for _, v := range row {
			raw[i] = byte(v)
			raw[i+1] = byte(v >> 8)
			i += 2
		}
	}
}

// NewPix allocates a h×w pixel matrix filled with v.
func NewPix(w, h int, v uint16) [][]uint16 {
	p := make([][]uint16, h)
	for y := range p {
		p[y] = make([]uint16, w)
		for x := range p[y] {
			p[y][x] = v
		}
	}
	return p
}

func ClonePix(p [][]uint16) [][]uint16 {
	q := make([][]uint16, len(p))
	for y := range p {
		q[y] = append([]uint16(nil), p[y]...)
	}
	return q
}

// SumPix is a position-sensitive checksum of a pixel matrix.
func SumPix(p [][]uint16) uint64 {
	h := uint64(1469598103934665603)
	for _, row := range p {
		for _, v := range row {
			h ^= uint64(v) + 0x9e37
			h *= 1099511628211
		}
	}
	return h
}

// SumInterior is SumPix restricted to the image without an edge border.
func SumInterior(p [][]uint16, edge int) uint64 {
	h := uint64(1469598103934665603)
	for y := edge; y < len(p)-edge; y++ {
		for x := edge; x < len(p[y])-edge; x++ {
			h ^= uint64(p[y][x]) + 0x9e37
			h *= 1099511628211
		}
	}
	return h
}
