//go:build verif

package zzverif

import (
	"fmt"
	"math"

	"verifsim"
)

// CheckProtocols: C12's well-formedness clause on all three sinks, and panics.
func CheckProtocols(r *verifsim.Run, t *Trace, ctx string) {
	for i := range t.Ev {
		if t.Ev[i].Panic != "" {
			r.Violate("C12", "C12.panic", "process", "%spanic while handling event %d (%c): %s", ctx, i, t.Ev[i].Kind, t.Ev[i].Panic)
			return
		}
	}
	for s := 0; s < 3; s++ {
		if _, bad := t.Protocol(s); bad != "" {
			r.Violate("C12", "C12.protocol", SinkName[s]+":"+stripEv(bad), "%s%s sink: %s; calls around it: %s", ctx, SinkName[s], bad, t.CallString(s, evOf(bad)-3, evOf(bad)+1))
		}
	}
}

func evOf(bad string) int {
	n := 0
	seen := false
	for i := 0; i < len(bad); i++ {
		if seen && bad[i] >= '0' && bad[i] <= '9' {
			n = n*10 + int(bad[i]-'0')
		}
		if bad[i] == 'v' {
			seen = true
		}
	}
	return n
}

// Slice returns the sub-trace of events [from, len) with frame ordinals
// renumbered from 0.
func (t *Trace) Slice(from int) *Trace {
	out := &Trace{}
	base := -1
	for i := from; i < len(t.Ev); i++ {
		e := t.Ev[i]
		if e.Ord >= 0 {
			if base < 0 {
				base = e.Ord
			}
			e.Ord -= base
		}
		out.Ev = append(out.Ev, e)
	}
	return out
}

// OpenAt: is a recording open on the sink just before event ev?
func (t *Trace) OpenAt(sink, ev int) bool {
	open := false
	for i := 0; i < ev && i < len(t.Ev); i++ {
		for _, c := range t.Ev[i].Calls[sink] {
			if c.Op == 'S' && !c.Err {
				open = true
			}
			if c.Op == 'X' {
				open = false
			}
		}
	}
	return open
}

// CheckContinuous: C17's tiling clause on the continuous sink. cutOK: events of
// kind 'B' may legitimately cut a file short (bad frames are outside C17's
// quantifier but occur in shared scenarios).
func CheckContinuous(r *verifsim.Run, t *Trace, maxF int, prop, rulePrefix string) {
	recs, bad := t.Protocol(SinkCont)
	if bad != "" {
		r.Violate("C12", "C12.protocol", "continuous:"+stripEv(bad), "continuous sink: %s", bad)
		r.Violate(prop, rulePrefix+".protocol", stripEv(bad), "continuous sink: %s — frames of an unclosed or unopened file land in no finished file (calls around it: %s)", bad, t.CallString(SinkCont, evOf(bad)-3, evOf(bad)+1))
		return
	}
	ix := indexTrace(t)
	next := 0
	nAcc := 0
	for i := range t.Ev {
		if t.Ev[i].Kind == 'F' && t.Ev[i].Ord >= 0 {
			nAcc++
		}
	}
	for k := range recs {
		rc := &recs[k]
		for i, id := range rc.IDs {
			ord, ok := ix.ordOf[id]
			if !ok {
				r.Violate(prop, rulePrefix+".foreign", "", "continuous file %d contains frame id %d which was never accepted", k, id)
				return
			}
			if ord != next {
				sig := "gap"
				if ord < next {
					sig = "repeat"
				}
				r.Violate(prop, rulePrefix+".tiling", sig, "continuous file %d position %d holds frame ordinal %d, expected %d (every frame in exactly one file, in order)", k, i, ord, next)
				return
			}
			if t.Ev[rc.EvOfW[i]].ID != id {
				r.Violate(prop, rulePrefix+".tiling", "late", "continuous file %d: frame id %d written during event %d which carries frame %d", k, id, rc.EvOfW[i], t.Ev[rc.EvOfW[i]].ID)
				return
			}
			next++
		}
		closed := rc.StopEv >= 0
		cut := closed && (t.Ev[rc.StopEv].Kind == 'B')
		switch {
		case closed && !cut && len(rc.IDs) != maxF+1:
			sig := "short"
			if len(rc.IDs) > maxF+1 {
				sig = "long"
			}
			r.Violate(prop, rulePrefix+".size", sig, "continuous file %d holds %d frames, expected max-secs*fps+1 = %d", k, len(rc.IDs), maxF+1)
			return
		case !closed && len(rc.IDs) > maxF+1:
			r.Violate(prop, rulePrefix+".size", "long", "open continuous file %d already holds %d frames, limit %d", k, len(rc.IDs), maxF+1)
			return
		case !closed && k != len(recs)-1:
			r.Violate(prop, rulePrefix+".size", "unclosed", "continuous file %d was never closed but file %d was started", k, k+1)
			return
		}
		if closed && !cut {
			r.Probe("continuous-file-complete")
		}
	}
	if next != nAcc {
		r.Violate(prop, rulePrefix+".tiling", "lost", "%d frames were accepted but only %d reached the continuous recorder", nAcc, next)
	}
}

// CheckTestRecordings: C17's 21-frame clause. Requests are the 'T' events; the
// generator keeps them non-overlapping.
func CheckTestRecordings(r *verifsim.Run, t *Trace) {
	recs, bad := t.Protocol(SinkTest)
	if bad != "" {
		r.Violate("C12", "C12.protocol", "test:"+stripEv(bad), "test sink: %s", bad)
		r.Violate("C17", "C17.test", "protocol:"+stripEv(bad), "test sink: %s (calls around it: %s)", bad, t.CallString(SinkTest, evOf(bad)-3, evOf(bad)+1))
		return
	}
	ix := indexTrace(t)
	k := 0
	for i := range t.Ev {
		if t.Ev[i].Kind != 'T' {
			continue
		}
		// next processed (accepted) frame
		j := i + 1
		for j < len(t.Ev) && !(t.Ev[j].Kind == 'F' && t.Ev[j].Ord >= 0) {
			j++
		}
		if j >= len(t.Ev) {
			break
		}
		if k >= len(recs) {
			r.Violate("C17", "C17.test", "missing", "test-recording request at event %d produced no recording", i)
			return
		}
		rc := &recs[k]
		k++
		if rc.StartEv != j {
			r.Violate("C17", "C17.test", "start", "test recording for the request at event %d started at event %d, expected the next processed frame (event %d)", i, rc.StartEv, j)
			return
		}
		first := t.Ev[j].Ord
		avail := 0
		for x := j; x < len(t.Ev); x++ {
			if t.Ev[x].Kind == 'F' && t.Ev[x].Ord >= 0 {
				avail++
			}
		}
		want := 21
		if avail < 21 {
			want = avail // stream ended first
			if rc.StopEv >= 0 {
				r.Violate("C17", "C17.test", "short", "test recording closed after %d frames", len(rc.IDs))
				return
			}
		} else if rc.StopEv < 0 || len(rc.IDs) != 21 {
			sig := "short"
			if len(rc.IDs) > 21 || rc.StopEv < 0 {
				sig = "long"
			}
			r.Violate("C17", "C17.test", sig, "test recording for the request at event %d holds %d frames (closed=%v), expected exactly 21", i, len(rc.IDs), rc.StopEv >= 0)
			return
		}
		if len(rc.IDs) < want {
			r.Violate("C17", "C17.test", "short", "test recording holds %d frames, expected %d", len(rc.IDs), want)
			return
		}
		for x, id := range rc.IDs {
			if ord, ok := ix.ordOf[id]; !ok || ord != first+x {
				r.Violate("C17", "C17.test", "content", "test recording position %d holds frame ordinal %d, expected %d (21 consecutive frames starting with the next processed frame)", x, ord, first+x)
				return
			}
		}
		if want == 21 {
			r.Probe("test-recording-complete")
			if t.OpenAt(SinkMotion, j) {
				r.Probe("test-recording-during-motion-recording")
			}
		}
	}
	if k < len(recs) {
		r.Violate("C17", "C17.test", "spurious", "%d test recordings for %d requests", len(recs), k)
	}
}

// SameSink compares the call sequences of one sink in two traces (paired
// executions); returns a description of the first difference or "".
func SameSink(a, b *Trace, sink int) string {
	type fc struct {
		op  byte
		id  int
		err bool
		fid int // frame id of the event
	}
	flat := func(t *Trace) []fc {
		var out []fc
		for i := range t.Ev {
			for _, c := range t.Ev[i].Calls[sink] {
				out = append(out, fc{c.Op, c.ID, c.Err, t.Ev[i].ID})
			}
		}
		return out
	}
	x, y := flat(a), flat(b)
	for i := 0; i < len(x) && i < len(y); i++ {
		if x[i] != y[i] {
			return fmt.Sprintf("call %d differs: %c(id %d) during frame %d vs %c(id %d) during frame %d", i, x[i].op, x[i].id, x[i].fid, y[i].op, y[i].id, y[i].fid)
		}
	}
	if len(x) != len(y) {
		return fmt.Sprintf("%d calls vs %d calls", len(x), len(y))
	}
	return ""
}

// SameMotion compares per-frame detection results of two traces by frame id.
func SameMotion(a, b *Trace) string {
	m := map[int]bool{}
	for i := range a.Ev {
		if a.Ev[i].Kind == 'F' {
			m[a.Ev[i].ID] = a.Ev[i].Motion
		}
	}
	for i := range b.Ev {
		if b.Ev[i].Kind == 'F' {
			if v, ok := m[b.Ev[i].ID]; ok && v != b.Ev[i].Motion {
				return fmt.Sprintf("frame id %d: motion %v vs %v", b.Ev[i].ID, v, b.Ev[i].Motion)
			}
		}
	}
	return ""
}

// CheckTelemetry: frames reach the sinks with the telemetry that was sent (C13).
func CheckTelemetry(r *verifsim.Run, t *Trace, sent map[int]Tel) {
	for i := range t.Ev {
		for s := 0; s < 3; s++ {
			for _, c := range t.Ev[i].Calls[s] {
				if c.Op != 'W' {
					continue
				}
				tel, ok := sent[c.ID]
				if !ok {
					continue
				}
				st := c.St
				if st.TimeOn != tel.TimeOn() || st.LastFFCTime != tel.LastFFCTime() || st.FrameMean != tel.FrameMean ||
					math.Abs(st.TempC-tel.TempC()) > 1e-9 || math.Abs(st.LastFFCTempC-tel.LastFFCTempC()) > 1e-9 {
					r.Violate("C13", "C13.telemetry", "", "frame id %d reached the %s sink with telemetry %+v, sent %+v", c.ID, SinkName[s], st, tel)
					return
				}
			}
		}
	}
}
