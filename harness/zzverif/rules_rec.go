//go:build verif

package zzverif

import (
	"fmt"

	"verifsim"
)

// RecParams are the recorder parameters as the *configuration* states them.
type RecParams struct {
	Cap  int // preview-secs*fps + trigger-frames
	Trig int // trigger-frames
	MinF int // min-secs*fps
	MaxF int // max-secs*fps
}

func max2(a, b int) int {
	if a > b {
		return a
	}
	return b
}
func min2(a, b int) int {
	if a < b {
		return a
	}
	return b
}

// Index of accepted frames of a trace.
type accIndex struct {
	ordOf map[int]int    // frame id -> ordinal among accepted frames
	sumOf map[int]uint64 // frame id -> checksum of the pixels sent
	kind  map[int]byte   // frame id -> 'F' accepted / 'B' bad
}

func indexTrace(t *Trace) *accIndex {
	ix := &accIndex{ordOf: map[int]int{}, sumOf: map[int]uint64{}, kind: map[int]byte{}}
	for i := range t.Ev {
		e := &t.Ev[i]
		switch e.Kind {
		case 'F':
			if e.Ord >= 0 {
				ix.ordOf[e.ID] = e.Ord
			}
			ix.sumOf[e.ID] = e.Sum
			ix.kind[e.ID] = 'F'
		case 'B':
			ix.sumOf[e.ID] = e.Sum
			ix.kind[e.ID] = 'B'
		}
	}
	return ix
}

// CheckRecRules evaluates the rules of C01–C04 on the motion sink's trace. Each
// rule is stated on the observed trace itself (not against one monolithic
// model), so that a defect in one aspect is attributed to its own property.
func CheckRecRules(r *verifsim.Run, t *Trace, p RecParams) {
	CheckStartRule(r, t, p)
	recs, bad := t.Protocol(SinkMotion)
	if bad != "" {
		r.Violate("C12", "C12.protocol", "motion:"+stripEv(bad), "motion sink: %s; calls: %s", bad, t.CallString(SinkMotion, 0, len(t.Ev)))
		return
	}
	ix := indexTrace(t)

	// ---- what the processor announces to its listener: a start exactly where the sink accepted one,
	// an end exactly where the recording was ended (whatever the sink answered to the stop call)
	for i := range t.Ev {
		e := &t.Ev[i]
		startOK, stop := false, false
		for _, c := range e.Calls[SinkMotion] {
			switch c.Op {
			case 'S':
				startOK = startOK || !c.Err
			case 'X':
				stop = true
			}
		}
		if e.Started != startOK {
			sig := "start-not-announced"
			if e.Started {
				sig = "announced-without-start"
			}
			r.Violate("C04", "C04.announce", sig, "event %d: RecordingStarted announced=%v, the motion sink accepted a start during this event=%v; calls: %s", i, e.Started, startOK, t.CallString(SinkMotion, i, i+1))
			break // the rules below still speak for their own properties
		}
		if e.Ended != stop {
			sig := "end-not-announced"
			if e.Ended {
				sig = "announced-without-end"
			}
			r.Violate("C03", "C03.announce", sig, "event %d: RecordingEnded announced=%v, the recording was ended during this event=%v; calls: %s", i, e.Ended, stop, t.CallString(SinkMotion, i, i+1))
			break // the rules below still speak for their own properties
		}
	}

	// ---- C01 / C02 ---------------------------------------------------------
	seen := map[int]int{} // id -> recording index
	lastOrd := -1         // last ordinal written by the previous recording
	for k := range recs {
		rc := &recs[k]
		se := &t.Ev[rc.StartEv]
		prevOrd := -2
		firstOrd := -1
		okIDs := true
		for i, id := range rc.IDs {
			ord, acc := ix.ordOf[id]
			if !acc {
				okIDs = false
				if ix.kind[id] == 'B' {
					r.Violate("C13", "C13.bad-recorded", "motion", "bad frame id %d written to the motion recording %d", id, k)
				}
				r.Violate("C01", "C01.not-accepted", "", "recording %d contains frame id %d which was never accepted", k, id)
				continue
			}
			if i == 0 {
				firstOrd = ord
			} else if ord != prevOrd+1 && !failedCallIn(t, rc.StartEv) {
				sig := "gap"
				if ord == prevOrd {
					sig = "repeat"
				} else if ord < prevOrd {
					sig = "reorder"
				}
				r.Violate("C01", "C01.order", sig, "recording %d: frame ordinal %d follows %d (ids …%v)", k, ord, prevOrd, tailInts(rc.IDs, i+1, 6))
			}
			prevOrd = ord
			if k0, dup := seen[id]; dup {
				where := "two-recordings"
				if k0 == k {
					where = "same-recording"
				}
				r.Violate("C01", "C01.dup", where, "frame id %d (ordinal %d) written to recordings %d and %d", id, ord, k0, k)
			}
			seen[id] = k
			if s := ix.sumOf[id]; s != 0 {
				// compare with what the sink saw
				for _, c := range t.Ev[rc.EvOfW[i]].Calls[SinkMotion] {
					if c.Op == 'W' && c.ID == id && c.Sum != s {
						r.Violate("C01", "C01.content", "", "recording %d: frame id %d reached the sink with different pixels", k, id)
					}
				}
			}
		}
		if se.Kind != 'F' || se.Ord < 0 {
			r.Violate("C04", "C04.spurious", "non-frame", "recording %d started during event %d of kind %c", k, rc.StartEv, se.Kind)
			continue
		}
		T := se.Ord
		if okIDs && len(rc.IDs) > 0 {
			// tiling with the previous recording (C01)
			if lastOrd >= 0 && T-(p.Cap-1) <= lastOrd+1 && firstOrd != lastOrd+1 {
				sig := "loss"
				if firstOrd <= lastOrd {
					sig = "overlap"
				}
				r.Violate("C01", "C01.tile", sig, "recording %d (trigger ordinal %d, cap %d) begins at ordinal %d; previous recording ended at %d and is within reach", k, T, p.Cap, firstOrd, lastOrd)
			}
			if lastOrd >= 0 && T-(p.Cap-1) <= lastOrd+1 {
				r.Probe("retrigger-within-reach")
				r.Distinct("c01.tile", fmt.Sprintf("cap%d:dist%d", p.Cap, T-lastOrd-1))
			}
			// pre-trigger content (C02)
			want := max2(max2(T-(p.Cap-1), lastOrd+1), 0)
			var got []int
			for i := range rc.IDs {
				if rc.EvOfW[i] == rc.StartEv {
					got = append(got, ix.ordOf[rc.IDs[i]])
				}
			}
			if failedCallIn(t, rc.StartEv) {
				// relaxation under faults: a start aborted half-way by a write error (C12's business)
			} else if len(got) == 0 || got[0] != want {
				sig := "short"
				g0 := -1
				if len(got) > 0 {
					g0 = got[0]
					if g0 < want {
						sig = "long"
					}
				}
				r.Violate("C02", "C02.first", sig, "recording %d triggered at ordinal %d (cap %d, previous end %d): first frame written is ordinal %d, expected %d", k, T, p.Cap, lastOrd, g0, want)
			} else {
				okSeq := len(got) == T-want+1
				for i := range got {
					if got[i] != want+i {
						okSeq = false
					}
				}
				if !okSeq {
					r.Violate("C02", "C02.preview", "", "recording %d triggered at ordinal %d: frames written at the trigger are ordinals %v, expected %d..%d", k, T, got, want, T)
				}
			}
			phase := "full"
			switch {
			case want == 0 && T < p.Cap-1:
				phase = "startup"
				r.Probe("trigger-before-ring-full")
			case want == lastOrd+1:
				phase = "after-prev"
			}
			r.Distinct("c02.phase", fmt.Sprintf("cap%d:%s:len%d", p.Cap, phase, T-want))
		} else if len(rc.IDs) == 0 {
			r.Violate("C02", "C02.first", "empty", "recording %d triggered at ordinal %d holds no frame", k, T)
		}
		if len(rc.IDs) > 0 {
			if o, ok := ix.ordOf[rc.IDs[len(rc.IDs)-1]]; ok {
				lastOrd = o
			}
		}
	}

	// ---- C03 ---------------------------------------------------------------
	for k := range recs {
		rc := &recs[k]
		if t.Ev[rc.StartEv].Kind != 'F' {
			continue
		}
		// relaxation under faults (this recording only): a failed pre-trigger write aborts the start half-way
		// and the recording may end early; it still never runs past its limit
		startFailed := failedCallIn(t, rc.StartEv)
		if startFailed {
			r.Probe("recording-with-failed-start-write")
		}
		pos, lastMotion := 0, 0
		done := false
		for j := rc.StartEv; j < len(t.Ev) && !done; j++ {
			e := &t.Ev[j]
			switch e.Kind {
			case 'B', 'C':
				// cut: the recording must end here (that it does is C13/C14/C12's rule)
				if rc.StopEv == j {
					r.Probe("recording-cut-by-" + string(e.Kind))
				}
				if rc.StopEv == j || rc.StopEv == -1 {
					done = true
				}
				if rc.StopEv != j {
					// not stopped by the cut event: leave to C13/C12; stop evaluating length
					done = true
				}
			case 'F':
				if e.Ord < 0 {
					continue
				}
				pos++
				// a motion frame is a frame in which motion was detected, whether or not the processor announced it
				if e.Motion || (e.HasTruth && e.Truth) {
					lastMotion = pos
				}
				written := false
				for i := range rc.IDs {
					if rc.EvOfW[i] == j && rc.IDs[i] == e.ID {
						written = true
					}
				}
				if !written && startFailed {
					done = true
					continue
				}
				if !written {
					what := "later-frame"
					if pos == 1 {
						what = "trigger-frame"
					}
					r.Violate("C03", "C03.unwritten", what, "recording %d: frame at position %d (id %d, ordinal %d) was not written although the recording was open (min %d, max %d)", k, pos, e.ID, e.Ord, p.MinF, p.MaxF)
					done = true
					continue
				}
				limit := max2(1, min2(lastMotion-1+p.MinF, p.MaxF))
				which := "min"
				if limit == p.MaxF && lastMotion-1+p.MinF > p.MaxF {
					which = "cap"
				}
				stoppedHere := rc.StopEv == j
				if pos >= limit && !stoppedHere {
					r.Violate("C03", "C03.late", which, "recording %d: position %d reached the limit %d (last motion at %d, min %d, max %d) but the recording was not ended", k, pos, limit, lastMotion, p.MinF, p.MaxF)
					done = true
				} else if pos < limit && stoppedHere && startFailed {
					r.Probe("recording-ended-early-after-failed-start-write")
					done = true
				} else if pos < limit && stoppedHere {
					r.Violate("C03", "C03.early", which, "recording %d ended at position %d, limit is %d (last motion at %d, min %d, max %d)", k, pos, limit, lastMotion, p.MinF, p.MaxF)
					done = true
				} else if stoppedHere {
					r.Probe("recording-ended-by-" + which)
					if lastMotion > 1 {
						r.Probe("recording-extended")
					}
					r.Distinct("c03.end", fmt.Sprintf("%s:len%d:last%d:min%d:max%d", which, pos, lastMotion, p.MinF, p.MaxF))
					done = true
				}
			}
		}
	}

}

// CheckStartRule: C04 on the observed trace. It needs only the start/stop calls and the motion
// callbacks, so it is evaluated even when the write protocol of the sink is malformed.
func CheckStartRule(r *verifsim.Run, t *Trace, p RecParams) {
	// ---- C04 ---------------------------------------------------------------
	open := false
	run := 0
	for i := range t.Ev {
		e := &t.Ev[i]
		started, stopped := false, false
		for _, c := range e.Calls[SinkMotion] {
			if c.Op == 'S' && !c.Err {
				started = true
			}
			if c.Op == 'X' && (open || started) {
				stopped = true
			}
		}
		if e.Kind == 'F' && e.Ord >= 0 {
			if e.Motion {
				run++
			} else {
				run = 0
			}
			if !open {
				conj := func(win bool) (bool, string) {
					switch {
					case !e.Motion:
						return false, "no-motion"
					case run < p.Trig:
						return false, "short-run"
					case !win:
						return false, "window"
					case !e.DiskOK:
						return false, "disk"
					case !e.CreateOK:
						return false, "create"
					}
					return true, "all"
				}
				want, why := conj(e.WinOpen)
				if want != started && e.WinEdge {
					want, why = conj(!e.WinOpen)
				}
				if want && !started {
					r.Violate("C04", "C04.missed", why, "event %d (ordinal %d): motion run %d >= trigger %d, window open=%v, disk ok=%v, create ok=%v but no recording started", i, e.Ord, run, p.Trig, e.WinOpen, e.DiskOK, e.CreateOK)
				} else if !want && started {
					r.Violate("C04", "C04.spurious", why, "event %d (ordinal %d): recording started although %s (motion=%v run=%d trigger=%d window=%v disk=%v create=%v)", i, e.Ord, why, e.Motion, run, p.Trig, e.WinOpen, e.DiskOK, e.CreateOK)
				}
				if e.Motion && run >= p.Trig {
					r.Distinct("c04.gate", fmt.Sprintf("trig%d:win%v:edge%v:disk%v:create%v", p.Trig, e.WinOpen, e.WinEdge, e.DiskOK, e.CreateOK))
					if !want {
						r.Probe("refused-start-" + why)
					}
				}
			}
		} else if started {
			r.Violate("C04", "C04.spurious", "non-frame", "recording started during event %d of kind %c", i, e.Kind)
		}
		if started && open {
			r.Violate("C04", "C04.spurious", "while-active", "event %d (ordinal %d): a recording was started although one is still active (a recording starts only if no recording is active)", i, e.Ord)
		}
		if started {
			open = true
		}
		if stopped {
			open = false
			run = 0
		}
	}
}

// failedCallIn: some motion-sink write of the event failed (injected fault).
func failedCallIn(t *Trace, ev int) bool {
	for _, c := range t.Ev[ev].Calls[SinkMotion] {
		if c.Op == 'W' && c.Err {
			return true
		}
	}
	return false
}

func stripEv(s string) string {
	for i := 0; i < len(s); i++ {
		if s[i] == '@' {
			return s[:i]
		}
	}
	return s
}

func tailInts(v []int, upto, n int) []int {
	if upto > len(v) {
		upto = len(v)
	}
	from := upto - n
	if from < 0 {
		from = 0
	}
	return v[from:upto]
}
