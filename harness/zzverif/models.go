//go:build verif

package zzverif

import "time"

// ---- R-win ------------------------------------------------------------------

// WinModel is the window as the property states it: open iff the local time of
// day lies in [start, stop) cyclically. At an instant exactly equal to start or
// stop either answer is accepted (Edge).
type WinModel struct {
	NoWindow          bool
	StartMin, StopMin int // minutes after midnight
}

func (w WinModel) At(t time.Time) (open, edge bool) {
	if w.NoWindow {
		return true, false
	}
	tod := time.Duration(t.Hour())*time.Hour + time.Duration(t.Minute())*time.Minute +
		time.Duration(t.Second())*time.Second + time.Duration(t.Nanosecond())
	s := time.Duration(w.StartMin) * time.Minute
	e := time.Duration(w.StopMin) * time.Minute
	edge = tod == s || tod == e
	if s < e {
		return tod >= s && tod < e, edge
	}
	return tod >= s || tod < e, edge
}

// ---- simulated wall clock -----------------------------------------------------

type SimClock struct{ T time.Time }

func (c *SimClock) Now() time.Time          { return c.T }
func (c *SimClock) Sleep(d time.Duration)   { c.T = c.T.Add(d) }
func (c *SimClock) Advance(d time.Duration) { c.T = c.T.Add(d) }

// ---- R-det --------------------------------------------------------------------

// DetModel is the fixed-threshold detector as C07 states it.
type DetModel struct {
	W, H, Edge int
	T          int // temp-thresh
	Delta      int
	Count      int
	Gap        int
	Warmer     bool
	OneDiff    bool
	hist       [][][]uint16
	prevHit    [][]bool
}

// Reset forgets the history (camera reset).
func (d *DetModel) Reset() { d.hist = nil; d.prevHit = nil }

// Frame feeds one accepted frame and returns whether it is motion, and the
// number of counted pixels.
func (d *DetModel) Frame(pix [][]uint16) (bool, int) {
	d.hist = append(d.hist, ClonePix(pix))
	if len(d.hist) > d.Gap+1 {
		d.hist = d.hist[len(d.hist)-(d.Gap+1):]
		// keep absolute indexing simple: t is always the last element
	}
	t := len(d.hist) - 1
	ref := 0 // earliest kept == t-gap when full, else the earliest since reset
	n := 0
	hit := make([][]bool, d.H)
	for y := range hit {
		hit[y] = make([]bool, d.W)
	}
	for y := d.Edge; y < d.H-d.Edge; y++ {
		for x := d.Edge; x < d.W-d.Edge; x++ {
			a, b := int(d.hist[t][y][x]), int(d.hist[ref][y][x])
			if a < d.T {
				a = d.T
			}
			if b < d.T {
				b = d.T
			}
			df := a - b
			if df < 0 {
				if d.Warmer {
					df = 0
				} else {
					df = -df
				}
			}
			hit[y][x] = df > d.Delta
			if hit[y][x] && (d.OneDiff || (d.prevHit != nil && d.prevHit[y][x])) {
				n++
			}
		}
	}
	first := d.prevHit == nil
	d.prevHit = hit
	return !first && n >= d.Count, n
}

// ---- R-ring -------------------------------------------------------------------

// RingModel is the frame ring as C19 states it, over integer tags.
type RingModel struct {
	Cap     int
	Written []int       // tags written since creation/reset, oldest first (the last one is the current frame's tag, possibly not yet written → see Cur)
	MarkPos int         // position (index into the infinite sequence since reset) of the 'oldest' mark; -1 none
	Pos     int         // position of the current slot since reset
	Tags    map[int]int // position -> tag written there
}

func NewRingModel(cap int) *RingModel {
	return &RingModel{Cap: cap, MarkPos: 0, Tags: map[int]int{}}
}

func (m *RingModel) Reset()        { m.MarkPos = 0; m.Pos = 0; m.Tags = map[int]int{} }
func (m *RingModel) Write(tag int) { m.Tags[m.Pos] = tag }
func (m *RingModel) SetAsOldest()  { m.MarkPos = m.Pos }
func (m *RingModel) Move() {
	m.Pos++
	for k := range m.Tags {
		if k <= m.Pos-m.Cap {
			delete(m.Tags, k)
		}
	}
	if m.MarkPos >= 0 && m.MarkPos <= m.Pos-m.Cap {
		m.MarkPos = -1
	}
}

// markBuffered: the mark is still among the retained positions.
func (m *RingModel) lowest() int {
	lo := m.Pos - m.Cap + 1
	if lo < 0 {
		lo = 0
	}
	if m.MarkPos >= 0 && m.MarkPos > lo {
		lo = m.MarkPos
	}
	return lo
}

// History returns the positions lowest..Pos.
func (m *RingModel) History() []int {
	var out []int
	for p := m.lowest(); p <= m.Pos; p++ {
		out = append(out, p)
	}
	return out
}

// ---- R-log --------------------------------------------------------------------

type LogModel struct {
	Interval time.Duration
	last     string
	lastT    time.Time
	any      bool
}

// Arrive returns whether the message must be printed.
func (m *LogModel) Arrive(msg string, now time.Time) bool {
	if m.any && msg == m.last && now.Sub(m.lastT) < m.Interval {
		return false
	}
	m.any, m.last, m.lastT = true, msg, now
	return true
}
