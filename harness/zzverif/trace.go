//go:build verif

package zzverif

import (
	"errors"
	"fmt"
	"strings"

	"github.com/TheCacophonyProject/go-cptv/cptvframe"
)

// Sink indices.
const (
	SinkMotion = 0
	SinkCont   = 1
	SinkTest   = 2
)

var SinkName = [3]string{"motion", "continuous", "test"}

// Call is one call of the code under test on a recorder.Recorder sink.
type Call struct {
	Op     byte // 'C' CheckCanRecord, 'S' StartRecording, 'W' WriteFrame, 'X' StopRecording
	ID     int  // frame id of the written frame (W)
	Sum    uint64
	Err    bool
	Thresh uint16              // S
	Bg     [][]uint16          // S: copy of the background passed (nil if nil)
	Ev     int                 // index of the event during which the call was made
	St     cptvframe.Telemetry // W: telemetry of the frame as the sink saw it
}

// Event is one input of a world-A history together with everything observed
// while the code under test handled it.
type Event struct {
	Kind byte // 'F' valid frame, 'B' bad frame, 'C' clear (camera reset), 'T' test-recording request, 'J' wall-clock step only
	ID   int  // frame id ('F','B'); -1 otherwise
	Ord  int  // ordinal among accepted frames ('F' accepted); -1 otherwise
	Sum  uint64

	// inputs decided by the scenario
	WinOpen  bool // R-win at this event's wall-clock instant
	WinEdge  bool // instant exactly on a window boundary: either answer accepted
	DiskOK   bool // answer the motion sink gives to CheckCanRecord during this event
	CreateOK bool // answer the motion sink gives to StartRecording during this event
	FFC      bool // frame lies in an FFC period (TimeOn-LastFFCTime < 10 s)

	// observations
	Motion    bool
	Truth     bool // verdict of an independent detector instance fed the same accepted frames (HasTruth); Motion is what the processor announced to its listener
	HasTruth  bool
	Started   bool
	Ended     bool
	ErrKind   byte // 0 none, 'b' *lepton3.BadFrameErr, 'e' other error
	Panic     string
	Calls     [3][]Call
	Thresh    uint16 // detector threshold after the event (in-package observation)
	Throttled int    // 'throttled' events emitted during this event (world A+B)
}

// Trace is the observed history of one execution.
type Trace struct {
	Ev  []Event
	cur int
}

func (t *Trace) Begin(e Event) *Event {
	t.Ev = append(t.Ev, e)
	t.cur = len(t.Ev) - 1
	return &t.Ev[t.cur]
}
func (t *Trace) Cur() *Event { return &t.Ev[t.cur] }

// Listener implements motion.RecordingListener.
type Listener struct{ T *Trace }

func (l *Listener) MotionDetected()   { l.T.Cur().Motion = true }
func (l *Listener) RecordingStarted() { l.T.Cur().Started = true }
func (l *Listener) RecordingEnded()   { l.T.Cur().Ended = true }

var ErrInjected = errors.New("injected sink fault: /media/usb%20disk/cptv is 100% full (0%d free)") // text that looks like a format string

// FaultPlan: per (op) the set of call ordinals (0-based, counted per sink and
// op) that fail. Gate answers of the motion sink (CheckCanRecord, Start) come
// from the current event instead when UseEventGates is set.
type FaultPlan struct {
	Fail map[byte]map[int]bool
}

func (p *FaultPlan) Add(op byte, n int) {
	if p.Fail == nil {
		p.Fail = map[byte]map[int]bool{}
	}
	if p.Fail[op] == nil {
		p.Fail[op] = map[int]bool{}
	}
	p.Fail[op][n] = true
}

// Sink is a fault-injecting recorder.Recorder that records every call.
type Sink struct {
	T             *Trace
	Idx           int
	Plan          FaultPlan
	UseEventGates bool
	N             map[byte]int // calls so far per op
	Fired         map[string]int
}

func NewSink(t *Trace, idx int) *Sink {
	return &Sink{T: t, Idx: idx, N: map[byte]int{}, Fired: map[string]int{}}
}

func (s *Sink) fail(op byte) bool {
	n := s.N[op]
	s.N[op] = n + 1
	return s.Plan.Fail[op][n]
}

func (s *Sink) rec(c Call) error {
	e := s.T.Cur()
	c.Ev = s.T.cur
	e.Calls[s.Idx] = append(e.Calls[s.Idx], c)
	if c.Err {
		s.Fired[SinkName[s.Idx]+"."+string(c.Op)]++
		return ErrInjected
	}
	return nil
}

func (s *Sink) CheckCanRecord() error {
	f := s.fail('C')
	if s.UseEventGates && !s.T.Cur().DiskOK {
		f = true
	}
	return s.rec(Call{Op: 'C', Err: f})
}

func (s *Sink) StartRecording(bg *cptvframe.Frame, thresh uint16) error {
	f := s.fail('S')
	if s.UseEventGates && !s.T.Cur().CreateOK {
		f = true
	}
	c := Call{Op: 'S', Err: f, Thresh: thresh}
	if bg != nil {
		c.Bg = ClonePix(bg.Pix)
	}
	return s.rec(c)
}

func (s *Sink) WriteFrame(f *cptvframe.Frame) error {
	return s.rec(Call{Op: 'W', ID: f.Status.FrameCount, Sum: SumPix(f.Pix), Err: s.fail('W'), St: f.Status})
}

func (s *Sink) StopRecording() error {
	return s.rec(Call{Op: 'X', Err: s.fail('X')})
}

// Rec is one recording as seen by a sink: a successful start, the writes that
// followed and the stop (if any).
type Rec struct {
	StartEv int
	StopEv  int // -1 while open
	IDs     []int
	EvOfW   []int
	Thresh  uint16
	Bg      [][]uint16
	StopErr bool
}

// Protocol parses the call sequence of one sink into recordings and reports the
// first protocol violation: write while closed, start while open. A redundant
// stop (stop while closed) is allowed.
func (t *Trace) Protocol(sink int) (recs []Rec, bad string) {
	open := false
	for i := range t.Ev {
		for _, c := range t.Ev[i].Calls[sink] {
			switch c.Op {
			case 'S':
				if open && bad == "" {
					bad = fmt.Sprintf("start-while-open@ev%d", i)
				}
				if !c.Err {
					if open {
						// treat as implicit new recording to keep parsing
						recs[len(recs)-1].StopEv = i
					}
					open = true
					recs = append(recs, Rec{StartEv: i, StopEv: -1, Thresh: c.Thresh, Bg: c.Bg})
				}
			case 'W':
				if !open {
					if bad == "" {
						bad = fmt.Sprintf("write-while-closed@ev%d", i)
					}
					continue
				}
				r := &recs[len(recs)-1]
				r.IDs = append(r.IDs, c.ID)
				r.EvOfW = append(r.EvOfW, i)
			case 'X':
				if open {
					r := &recs[len(recs)-1]
					r.StopEv = i
					r.StopErr = c.Err
					open = false
				}
			}
		}
	}
	return recs, bad
}

// CallString renders the calls of one sink compactly: S W12 W13 X, errors with '!'.
func (t *Trace) CallString(sink int, from, to int) string {
	var b strings.Builder
	for i := from; i <= to && i < len(t.Ev); i++ {
		if i < 0 {
			continue
		}
		for _, c := range t.Ev[i].Calls[sink] {
			b.WriteByte(c.Op)
			if c.Op == 'W' {
				fmt.Fprintf(&b, "%d", c.ID)
			}
			if c.Err {
				b.WriteByte('!')
			}
			b.WriteByte(' ')
		}
	}
	return strings.TrimSpace(b.String())
}

// OpString renders only the operation letters (no ids) of one sink.
func (t *Trace) OpString(sink int) string {
	var b strings.Builder
	for i := range t.Ev {
		for _, c := range t.Ev[i].Calls[sink] {
			b.WriteByte(c.Op)
			if c.Err {
				b.WriteByte('!')
			}
		}
	}
	return b.String()
}
