//go:build verif

package zzverif

// Parsing of Go race-detector reports (race passes of C16 and C18).

import (
	"os"
	"path/filepath"
	"regexp"
	"sort"
	"strings"
)

var raceLogOffset = map[string]int64{}

// NewRaceReports returns the race reports written since the last call.
func NewRaceReports() []string {
	base := os.Getenv("VERIF_RACELOG")
	if base == "" {
		return nil
	}
	files, _ := filepath.Glob(base + ".*")
	var out []string
	for _, f := range files {
		b, err := os.ReadFile(f)
		if err != nil {
			continue
		}
		off := raceLogOffset[f]
		if int64(len(b)) <= off {
			continue
		}
		txt := string(b[off:])
		raceLogOffset[f] = int64(len(b))
		for _, rep := range strings.Split(txt, "==================") {
			if strings.Contains(rep, "WARNING: DATA RACE") {
				out = append(out, rep)
			}
		}
	}
	return out
}

var reFunc = regexp.MustCompile(`(?m)^  (\S+)\(.*\)\n\s+(\S+):(\d+)`)

// RaceSignature: innermost repository function of each of the two access stacks.
func RaceSignature(rep string) (string, string) {
	// split into the two access stacks: "Write at ... by goroutine N:" / "Previous read at ... by ..."
	parts := regexp.MustCompile(`(?m)^(?:Read|Write|Previous read|Previous write|Atomic read|Atomic write|Previous atomic read|Previous atomic write) at .*$`).Split(rep, -1)
	var fns []string
	for _, p := range parts[1:] {
		if i := strings.Index(p, "\nGoroutine "); i >= 0 {
			p = p[:i]
		}
		inner := ""
		for _, m := range reFunc.FindAllStringSubmatch(p, -1) {
			fn, file := m[1], m[2]
			if strings.Contains(fn, "thermal-recorder/") && !strings.Contains(file, "zz_verif") && !strings.Contains(fn, "zzverif") {
				inner = fn
				break
			}
		}
		if inner != "" {
			inner = strings.TrimPrefix(inner, "github.com/TheCacophonyProject/thermal-recorder/")
			fns = append(fns, inner)
		}
		if len(fns) == 2 {
			break
		}
	}
	if len(fns) == 0 {
		return "", ""
	}
	sort.Strings(fns)
	return strings.Join(fns, " | "), strings.TrimSpace(rep)
}
