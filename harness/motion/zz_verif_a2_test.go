//go:build verif

package motion

import (
	"bytes"
	"fmt"
	"log"
	"strings"
	"time"

	zz "github.com/TheCacophonyProject/thermal-recorder/zzverif"

	"verifsim"
)

func describe(r *verifsim.Run, sc *aScenario) {
	c := &sc.Cfg
	r.Set("cfg", fmt.Sprintf("%dx%d@%dfps edge%d preview%ds min%ds max%ds trig%d exact=%v window=%v[%s-%s] cont=%v", c.W, c.H, c.Fps, c.Edge, c.Preview, c.MinS, c.MaxS, c.Trig, c.Exact, !c.NoWindow, hhmm(c.WinStart), hhmm(c.WinStop), c.Cont))
	r.Set("events", evString(sc.Ev))
}

func countFaults(r *verifsim.Run, w *aWorld) {
	for _, s := range w.sinks {
		for k, n := range s.Fired {
			for i := 0; i < n; i++ {
				r.Fault(k)
			}
		}
	}
}

func runScenario(sc *aScenario, opt aOpts) (*aWorld, *zz.Trace) {
	w := newAWorld(sc, opt)
	return w, w.exec(opt)
}

// nonOverlappingRequests drops test-recording requests that arrive while the
// previous test recording (21 frames) may still be running.
func nonOverlappingRequests(in []aEvent) []aEvent {
	since := 1000
	var ev []aEvent
	for _, e := range in {
		if e.Kind == 'T' {
			if since < 24 {
				continue
			}
			since = 0
		} else if e.Kind == 'F' {
			since++
		}
		ev = append(ev, e)
	}
	return ev
}

// ---- unit A.cont : C17 ------------------------------------------------------------

func runACont(r *verifsim.Run) {
	sc := genRecScenario(r, "C17")
	sc.Ev = nonOverlappingRequests(sc.Ev)
	describe(r, sc)
	c := &sc.Cfg
	w, tr := runScenario(sc, aOpts{SkipEv: -1})
	countFaults(r, w)
	r.SimTime(w.clock.T.Sub(sc.Start))
	r.Count("frames", w.nextID)
	zz.CheckProtocols(r, tr, "")
	if r.Failed() {
		return
	}
	zz.CheckContinuous(r, tr, c.MaxS*c.Fps, "C17", "C17.cont")
	zz.CheckTestRecordings(r, tr)
	_, trNoTest := runScenario(sc, aOpts{SkipEv: -1, NoTest: true})
	if d := zz.SameSink(tr, trNoTest, zz.SinkMotion); d != "" {
		r.Violate("C17", "C17.disturb", "motion", "motion sink differs between the run with and without test-recording requests: %s", d)
	}
	if d := zz.SameSink(tr, trNoTest, zz.SinkCont); d != "" {
		r.Violate("C17", "C17.disturb", "continuous", "continuous sink differs between the run with and without test-recording requests: %s", d)
	}
	_, trNoCont := runScenario(sc, aOpts{SkipEv: -1, NoCont: true})
	if d := zz.SameSink(tr, trNoCont, zz.SinkMotion); d != "" {
		r.Violate("C17", "C17.independent", "motion", "motion sink differs between the run with and without the continuous recorder: %s", d)
	}
	if d := zz.SameSink(tr, trNoCont, zz.SinkTest); d != "" {
		r.Violate("C17", "C17.independent", "test", "test sink differs between the run with and without the continuous recorder: %s", d)
	}
	// independence of motion/window: the continuous trace must not depend on them → compare with an
	// execution in which the window is always open and every start is allowed
	sc2 := *sc
	sc2.Cfg.NoWindow = true
	sc2.Ev = append([]aEvent(nil), sc.Ev...)
	for i := range sc2.Ev {
		sc2.Ev[i].DiskOK, sc2.Ev[i].CreateOK = true, true
	}
	_, trOpen := runScenario(&sc2, aOpts{SkipEv: -1})
	if d := zz.SameSink(tr, trOpen, zz.SinkCont); d != "" {
		r.Violate("C17", "C17.independent", "window", "continuous sink depends on window/disk state: %s", d)
	}
	crecs, _ := tr.Protocol(zz.SinkCont)
	trecs, _ := tr.Protocol(zz.SinkTest)
	mrecs, _ := tr.Protocol(zz.SinkMotion)
	if len(crecs) >= 2 {
		r.Nontrivial(fmt.Sprintf("max%d:cont%d:test%d:motion%d:n%d:%s", c.MaxS*c.Fps, len(crecs), len(trecs), len(mrecs), w.nextID, tr.OpString(zz.SinkTest)))
	}
	r.Distinct("c17", fmt.Sprintf("max%d:fps%d:files%d:tests%d:win%v", c.MaxS, c.Fps, len(crecs), len(trecs), !c.NoWindow))
	if !c.NoWindow {
		r.Probe("window-configured")
	}
	for i := range tr.Ev {
		if tr.Ev[i].Kind == 'C' {
			r.Probe("camera-reset")
			break
		}
	}
}

// ---- unit A.bad : C13 ---------------------------------------------------------------

func runABad(r *verifsim.Run) {
	sc := genRecScenario(r, "C13")
	c := &sc.Cfg
	sc.Ev = nonOverlappingRequests(sc.Ev)
	if c.Cont && r.Chance(1, 3) {
		// storage failures on the continuous recorder too (its stop is issued on every bad frame)
		for i, k := 0, r.Range(1, 4); i < k; i++ {
			sc.Plans[zz.SinkCont].Add('X', r.Draw(12))
		}
	}
	// border zeros on valid frames (must be accepted), multiple zeros on bad frames
	for i := range sc.Ev {
		e := &sc.Ev[i]
		if e.Kind == 'F' && c.Edge > 0 && r.Chance(1, 10) {
			e.BZ = 1 + r.Draw(4)
		}
		if e.Kind == 'B' {
			switch r.Draw(4) {
			case 0: // corner of the interior
				e.BadX, e.BadY = c.Edge, c.Edge
			case 1: // last interior column / row
				e.BadX, e.BadY = c.W-c.Edge-1, c.H-c.Edge-1
			case 2:
				e.BadX, e.BadY = c.W-c.Edge-1, r.Range(c.Edge, c.H-c.Edge-1)
			}
			if r.Chance(1, 4) {
				e.BZ = 1 + r.Draw(4) // additionally zero border pixels
			}
		}
	}
	describe(r, sc)
	w, tr := runScenario(sc, aOpts{SkipEv: -1})
	countFaults(r, w)
	r.SimTime(w.clock.T.Sub(sc.Start))
	r.Count("frames", w.nextID)
	nBad := 0
	var badIdx []int
	for i := range tr.Ev {
		e := &tr.Ev[i]
		if e.Panic != "" {
			r.Violate("C13", "C13.resume", "panic", "panic while handling event %d (%c): %s", i, e.Kind, e.Panic)
			return
		}
		switch e.Kind {
		case 'B':
			nBad++
			badIdx = append(badIdx, i)
			if e.ErrKind != 'b' {
				r.Violate("C13", "C13.classify", "accepted-bad", "frame id %d has a zero pixel inside the border (edge %d) but Process returned error kind %q", e.ID, c.Edge, e.ErrKind)
				return
			}
			open := tr.OpenAt(zz.SinkMotion, i)
			nx, nw := 0, 0
			for _, cl := range e.Calls[zz.SinkMotion] {
				if cl.Op == 'X' {
					nx++
				}
				if cl.Op == 'W' || cl.Op == 'S' {
					nw++
				}
			}
			if open {
				r.Probe("bad-frame-during-recording")
				if nx != 1 || nw != 0 {
					r.Violate("C13", "C13.end", "", "bad frame id %d during a motion recording: %d stop and %d start/write calls (expected exactly one stop)", e.ID, nx, nw)
					return
				}
			} else {
				r.Probe("bad-frame-while-idle")
				if nw != 0 {
					r.Violate("C13", "C13.end", "idle-write", "bad frame id %d while idle caused start/write calls on the motion sink", e.ID)
					return
				}
			}
		case 'F':
			if e.ErrKind != 0 {
				r.Violate("C13", "C13.classify", "rejected-good", "frame id %d has no zero pixel inside the border (edge %d) but Process returned an error", e.ID, c.Edge)
				return
			}
		}
		for s := 0; s < 3; s++ {
			for _, cl := range e.Calls[s] {
				if cl.Op != 'W' {
					continue
				}
				if pix, ok := w.sent[cl.ID]; ok {
					if w.kind[cl.ID] == 'B' {
						r.Violate("C13", "C13.bad-recorded", zz.SinkName[s], "bad frame id %d was written to the %s sink", cl.ID, zz.SinkName[s])
						return
					}
					if zz.SumPix(pix) != cl.Sum {
						r.Violate("C13", "C13.pixels", zz.SinkName[s], "frame id %d reached the %s sink with pixels different from those sent", cl.ID, zz.SinkName[s])
						return
					}
				}
			}
		}
	}
	zz.CheckTelemetry(r, tr, w.tels)
	// resumption: the sinks stay well-formed after bad frames
	for s := 0; s < 3; s++ {
		if _, bad := tr.Protocol(s); bad != "" {
			r.Violate("C13", "C13.resume", zz.SinkName[s]+":"+stripAt(bad), "after a bad frame the %s sink saw %s (calls: %s)", zz.SinkName[s], bad, tr.CallString(s, 0, len(tr.Ev)))
			return
		}
	}
	// the bad frame never enters the ring or the detector: the rest of the run equals the run without it
	zz.CheckRecRules(r, tr, c.params()) // (reports under C01.. only; C13.bad-recorded from inside)
	for k := 0; k < 3 && len(badIdx) > 0; k++ {
		b := badIdx[r.Draw(len(badIdx))]
		_, tr2 := runScenario(sc, aOpts{SkipEv: b})
		if d := zz.SameMotion(tr, tr2); d != "" {
			r.Violate("C13", "C13.differential", "detection", "detection results differ from the stream without bad frame id %d: %s", tr.Ev[b].ID, d)
			return
		}
		if !tr.OpenAt(zz.SinkMotion, b) {
			if d := zz.SameSink(tr, tr2, zz.SinkMotion); d != "" {
				r.Violate("C13", "C13.differential", "motion-sink", "motion sink differs from the stream without bad frame id %d (no recording was open): %s", tr.Ev[b].ID, d)
				return
			}
			r.Probe("differential-idle")
		}
		if d := zz.SameSink(tr, tr2, zz.SinkTest); d != "" {
			r.Violate("C13", "C13.differential", "test-sink", "test sink differs from the stream without bad frame id %d: %s", tr.Ev[b].ID, d)
			return
		}
	}
	if nBad >= 1 {
		recs, _ := tr.Protocol(zz.SinkMotion)
		r.Nontrivial(fmt.Sprintf("edge%d:%dx%d:bad%d:recs%d:%s", c.Edge, c.W, c.H, nBad, len(recs), evString(sc.Ev)))
	}
	r.Distinct("c13.badpos", fmt.Sprintf("edge%d:%dx%d", c.Edge, c.W, c.H))
}

func stripAt(s string) string {
	for i := 0; i < len(s); i++ {
		if s[i] == '@' {
			return s[:i]
		}
	}
	return s
}

// ---- unit A.fault : C12 ---------------------------------------------------------------

type placement struct {
	sink int
	op   byte
	n    int
}

func runAFault(r *verifsim.Run) {
	sc := genRecScenario(r, "C12")
	c := &sc.Cfg
	// exact detector so that the liveness burst is a burst
	c.Exact = true
	c.Motion.TempThresh, c.Motion.DeltaThresh, c.Motion.CountThresh, c.Motion.FrameCompareGap = 1000, 20, 1, 1
	c.Motion.UseOneDiffOnly, c.Motion.WarmerOnly, c.Motion.DynamicThreshold = true, false, false
	c.NoWindow = true
	sc.Plans = [3]zz.FaultPlan{}
	n := r.Range(8, 60)
	if len(sc.Ev) > n {
		sc.Ev = sc.Ev[:n]
	}
	for i := range sc.Ev {
		sc.Ev[i].DiskOK, sc.Ev[i].CreateOK = true, true
		sc.Ev[i].Dt = 0
	}
	p := c.params()
	prefix := len(sc.Ev)
	settle := p.MaxF // frames after which nothing started in the prefix can still be open
	if settle < 22 {
		settle = 22 // a test recording (21 frames) may still be running
	}
	quiet := settle + p.Cap + 3
	add := func(n int, m bool) {
		for i := 0; i < n; i++ {
			sc.Ev = append(sc.Ev, aEvent{Kind: 'F', M: m, DiskOK: true, CreateOK: true})
		}
	}
	add(quiet, false)
	sc.Ev = append(sc.Ev, aEvent{Kind: 'T', DiskOK: true, CreateOK: true}) // a test-recording request after recovery
	add(p.Trig+2, true)
	add(p.MinF+p.MaxF+p.Cap+24, false)
	describe(r, sc)
	r.Set("prefix_len", prefix)

	_, tr0 := runScenario(sc, aOpts{SkipEv: -1})
	// count the calls made while handling the prefix (fault-free run)
	var counts [3]map[byte]int
	for s := range counts {
		counts[s] = map[byte]int{}
	}
	for i := 0; i < prefix && i < len(tr0.Ev); i++ {
		for s := 0; s < 3; s++ {
			for _, cl := range tr0.Ev[i].Calls[s] {
				counts[s][cl.Op]++
			}
		}
	}
	check := func(plans [3]zz.FaultPlan, what string) bool {
		sc2 := *sc
		sc2.Plans = plans
		w, tr := runScenario(&sc2, aOpts{SkipEv: -1})
		countFaults(r, w)
		r.Count("executions", 1)
		r.Count("frames", w.nextID)
		ctx := "[" + what + "] "
		zz.CheckProtocols(r, tr, ctx)
		if r.Failed() {
			return false
		}
		// liveness: evaluated only if every fault fired before the quiet period
		lastFault := -1
		for i := range tr.Ev {
			for s := 0; s < 3; s++ {
				for _, cl := range tr.Ev[i].Calls[s] {
					if cl.Err {
						lastFault = i
					}
				}
			}
		}
		// map scenario event index -> trace index (same: no skipped events)
		if lastFault >= prefix {
			r.Probe("liveness-skipped-fault-in-suffix")
			return true
		}
		if lastFault >= 0 {
			r.Probe("liveness-after-fault")
		}
		at := prefix + settle + 1 // nothing from the prefix can still be open; >= cap frames before the burst
		if tr.OpenAt(zz.SinkMotion, at) {
			r.Violate("C12", "C12.stuck", "motion-open", "%sa motion recording is still open %d motionless frames after the last fault (max %d frames)", ctx, quiet-1, p.MaxF)
			return false
		}
		sl := tr.Slice(at)
		r.Map = func(prop, rule, sig string) (string, string, string) {
			if prop == "C17" {
				// C12's recovery clause speaks of *motion* being recorded normally; a test
				// recording that is short after a failed stop is noted, not reported
				return "OBS", "obs.test-recording-after-failure", sig
			}
			if prop == "C01" || prop == "C02" || prop == "C03" || prop == "C04" {
				return "C12", "C12.liveness", rule
			}
			return prop, rule, sig
		}
		zz.CheckRecRules(r, sl, p)
		zz.CheckTestRecordings(r, sl)
		r.Map = nil
		if r.Failed() {
			v := r.Violation()
			v.Msg = ctx + "after the failure later motion is not recorded normally: " + v.Msg
			return false
		}
		if recs, _ := sl.Protocol(zz.SinkMotion); len(recs) == 0 {
			r.Violate("C12", "C12.liveness", "no-recording", "%sthe motion burst after the quiet period produced no recording", ctx)
			return false
		}
		if c.Cont {
			// observation only (same reason): does the continuous recorder carry on after the failure?
			for i := at; i < len(tr.Ev); i++ {
				if tr.Ev[i].Kind != 'F' {
					continue
				}
				nw := 0
				for _, cl := range tr.Ev[i].Calls[zz.SinkCont] {
					if cl.Op == 'W' && cl.ID == tr.Ev[i].ID {
						nw++
					}
				}
				if nw != 1 {
					r.Violate("OBS", "obs.continuous-after-failure", "", "%sframe id %d was written %d times to the continuous recorder after recovery", ctx, tr.Ev[i].ID, nw)
					break
				}
			}
		}
		return true
	}
	if !check([3]zz.FaultPlan{}, "no fault") {
		return
	}
	nPlace := 0
	for s := 0; s < 3; s++ {
		for _, op := range []byte{'C', 'S', 'W', 'X'} {
			for k := 0; k < counts[s][op]; k++ {
				var plans [3]zz.FaultPlan
				plans[s].Add(op, k)
				nPlace++
				if !check(plans, fmt.Sprintf("single fault: %s.%c call #%d", zz.SinkName[s], op, k)) {
					return
				}
			}
		}
	}
	r.Count("single_fault_placements", nPlace)
	// seeded multi-fault plans
	for m := 0; m < 6; m++ {
		var plans [3]zz.FaultPlan
		desc := "multi fault:"
		for f, nf := 0, r.Range(2, 6); f < nf; f++ {
			s := r.Draw(3)
			op := []byte{'C', 'S', 'W', 'X'}[r.Draw(4)]
			if counts[s][op] == 0 {
				continue
			}
			k := r.Draw(counts[s][op])
			plans[s].Add(op, k)
			desc += fmt.Sprintf(" %s.%c#%d", zz.SinkName[s], op, k)
		}
		if !check(plans, desc) {
			return
		}
	}
	if nPlace > 0 {
		r.Nontrivial(fmt.Sprintf("cont%v:cap%d:min%d:max%d:%s", c.Cont, p.Cap, p.MinF, p.MaxF, evString(sc.Ev[:prefix])))
	}
	r.Distinct("c12.ops", fmt.Sprintf("m%d/%d/%d c%d/%d/%d t%d/%d/%d", counts[0]['S'], counts[0]['W'], counts[0]['X'], counts[1]['S'], counts[1]['W'], counts[1]['X'], counts[2]['S'], counts[2]['W'], counts[2]['X']))
}

// ---- unit A.logtext : C20 (messages reach the log unmodified, also when they look like formats) ----

func runALogText(r *verifsim.Run) {
	sc := genRecScenario(r, "C12")
	sc.Cfg.Cont = true
	sc.Plans = [3]zz.FaultPlan{}
	for i, k := 0, r.Range(2, 8); i < k; i++ {
		s := r.Draw(3)
		sc.Plans[s].Add([]byte{'S', 'X', 'W'}[r.Draw(3)], r.Draw(10))
	}
	if r.Chance(1, 2) {
		// the medium fails for a while: every write of a stretch of frames fails (one condition, recurring on every frame)
		s, from := r.OneOf(zz.SinkMotion, zz.SinkMotion, zz.SinkCont), r.Draw(40)
		for j, k := 0, r.Range(3, 25); j < k; j++ {
			sc.Plans[s].Add('W', from+j)
		}
	}
	for i := range sc.Ev {
		if r.Chance(1, 30) {
			sc.Ev[i].CreateOK = false // "Can't start recording file: <error text>"
		}
		if r.Chance(1, 30) {
			sc.Ev[i].DiskOK = false // "Recording not started: <error text>"
		}
	}
	describe(r, sc)
	var buf bytes.Buffer
	old := log.Writer()
	log.SetOutput(&buf)
	log.SetFlags(0)
	defer func() { log.SetOutput(old) }()
	began := time.Now()
	w, tr := runScenario(sc, aOpts{SkipEv: -1})
	took := time.Since(began)
	log.SetOutput(old)
	countFaults(r, w)
	for i := range tr.Ev {
		if tr.Ev[i].Panic != "" {
			r.Violate("C12", "C12.panic", "process", "panic: %s", tr.Ev[i].Panic)
			return
		}
	}
	nErr := 0
	prevMasked := ""
	for _, line := range strings.Split(buf.String(), "\n") {
		if line == "" {
			continue
		}
		// the whole run takes milliseconds of the limiter's (real) clock, far less than its one-minute
		// interval: a condition that recurs frame after frame shows up once, not once per frame with a
		// number changing in the text
		masked := maskDigits(line)
		if took < 20*time.Second && strings.Contains(line, "injected sink fault") && masked == prevMasked {
			r.Violate("C20", "C20.recurring", "varying-text", "one condition recurring on consecutive frames produced several log lines within an interval: %q follows a line that differs from it only in numbers", line)
			return
		}
		prevMasked = masked
		if strings.Contains(line, "%!") {
			r.Violate("C20", "C20.print", "modified:format-applied-twice", "a message was not printed unmodified: the log holds %q (the error text is %q)", line, zz.ErrInjected.Error())
			return
		}
		if strings.Contains(line, "injected sink fault") {
			nErr++
			if !strings.HasSuffix(line, zz.ErrInjected.Error()) {
				r.Violate("C20", "C20.print", "modified:error-text", "a message carrying an error text was altered: %q does not end with %q", line, zz.ErrInjected.Error())
				return
			}
		}
	}
	if nErr >= 2 {
		r.Nontrivial(fmt.Sprintf("%d:%s", nErr, evString(sc.Ev)))
		r.Probe("error-text-with-percent-signs-logged")
	}
	r.Count("log_lines_with_error_text", nErr)
}

func maskDigits(s string) string {
	b := []byte(s)
	out := b[:0:0]
	for i := 0; i < len(b); i++ {
		if b[i] >= '0' && b[i] <= '9' {
			if len(out) == 0 || out[len(out)-1] != '#' {
				out = append(out, '#')
			}
			continue
		}
		out = append(out, b[i])
	}
	return string(out)
}
