//go:build verif

package motion

// World A: the real MotionProcessor + detector + FrameLoop + lepton3 parser +
// window + loglimiter, inside a simulated camera / wall clock / three
// fault-injecting sinks. A scenario is generated completely from the choice
// tape and then executed without further draws, so that paired executions
// (with/without test requests, with/without a bad frame, …) are possible.

import (
	"fmt"
	"io"
	"log"
	"os"
	"path/filepath"
	"time"

	config "github.com/TheCacophonyProject/go-config"
	"github.com/TheCacophonyProject/go-cptv/cptvframe"
	"github.com/TheCacophonyProject/lepton3"
	"github.com/TheCacophonyProject/thermal-recorder/recorder"
	"github.com/TheCacophonyProject/thermal-recorder/throttle"
	zz "github.com/TheCacophonyProject/thermal-recorder/zzverif"
	"github.com/TheCacophonyProject/window"

	"verifsim"
)

func init() { log.SetOutput(io.Discard) }

var simZone = time.FixedZone("+1245", (12*60+45)*60)

type aCfg struct {
	W, H, Fps, Edge           int
	Preview, MinS, MaxS, Trig int
	Motion                    config.ThermalMotion
	Exact                     bool // detector configured so that any motion bit string is realisable
	NoWindow                  bool
	WinStart, WinStop         int // minutes
	Cont                      bool
	Thr                       *config.ThermalThrottler // non-nil: the real ThrottledRecorder sits between processor and motion sink
	Base                      uint16
}

func (c *aCfg) params() zz.RecParams {
	return zz.RecParams{Cap: c.Preview*c.Fps + c.Trig, Trig: c.Trig, MinF: c.MinS * c.Fps, MaxF: c.MaxS * c.Fps}
}

type aEvent struct {
	Kind     byte // F B C T
	M        bool // intended motion (exact mode) / scene change (free mode)
	Dt       time.Duration
	DiskOK   bool
	CreateOK bool
	BadX     int
	BadY     int
	JumpMin  int // absolute wall-clock jump target (minute of day), with Dt == -1
	JumpK    int
	UpJumpMs uint32     // camera uptime jumps forward by this much before the frame
	Restart  bool       // ('C' events) the camera was power-cycled: its uptime clock starts again
	BZ       int        // number of border pixels set to zero (must not matter)
	FFC      bool       // an FFC happens just before this frame
	Pix      [][]uint16 // explicit content (detector-focused scenarios); nil → generated
	Tel      *zz.Tel
}

type aScenario struct {
	Cfg   aCfg
	Start time.Time
	Ev    []aEvent
	Plans [3]zz.FaultPlan
	Focus string
	// ColdStart: the camera was powered on as the stream begins - its uptime clock starts at 0 and the
	// start-up FFC carries the time stamp 0 (so do the ones after a power cycle)
	ColdStart bool
	AllBorder bool // the edge border leaves no interior pixel
}

type aOpts struct {
	NoTest            bool                   // drop test-recording requests
	NoCont            bool                   // run without the continuous recorder
	NoThrottle        bool                   // run without the throttle even if configured
	SkipEv            int                    // index of an event to leave out (-1 none)
	After             func(i int, w *aWorld) // called after every executed event with its trace index (in-package observations)
	AllowProcessFrame bool                   // the unit only looks at the motion sink: some scenarios may hand frames over through ProcessFrame
}

// genRecScenario draws a recorder-focused scenario. focus biases the generator
// (property id) but never restricts what the oracles check.
func genRecScenario(r *verifsim.Run, focus string) *aScenario {
	sc := &aScenario{Focus: focus}
	c := &sc.Cfg
	c.Fps = r.OneOf(1, 2, 3, 5, 9)
	c.Preview = r.Draw(4)
	c.Trig = r.Draw(5)
	if c.Preview*c.Fps+c.Trig == 0 {
		c.Trig = 1
	}
	c.MinS = r.Draw(4)
	c.MaxS = c.MinS + r.Draw(4)
	if focus == "C03" && r.Chance(1, 2) {
		c.MaxS = c.MinS + r.Draw(2)
	}
	if (focus == "C03" || focus == "C01") && r.Chance(1, 30) {
		// hours-long max-secs (legal): max-secs*fps just past 2^16 or 2^31 - frame counts are plain ints
		k := r.Draw(8)
		c.Fps = []int{9, 9, 5, 3, 2, 1, 9, 3}[k]
		c.MaxS = []int{7282, 7290, 13108, 21846, 32769, 65540, 238609295, 715827883}[k]
		c.Preview = r.Draw(2)
		r.Probe("stratum-very-long-max-secs")
	}
	c.W = r.Range(4, 8)
	c.H = r.Range(4, 6)
	c.Edge = r.Draw(2)
	c.Base = uint16(r.Range(3000, 3100))
	c.Exact = !r.Chance(1, 5)
	if c.Exact {
		c.Motion = config.ThermalMotion{TempThresh: 1000, DeltaThresh: 20, CountThresh: 1, FrameCompareGap: 1,
			UseOneDiffOnly: true, TriggerFrames: c.Trig, WarmerOnly: false, EdgePixels: c.Edge}
	} else {
		c.Motion = config.ThermalMotion{TempThresh: uint16(r.Range(2900, 3050)), DeltaThresh: uint16(r.Range(5, 60)),
			CountThresh: r.Range(1, 3), FrameCompareGap: r.Range(1, 4), UseOneDiffOnly: r.Chance(1, 2),
			TriggerFrames: c.Trig, WarmerOnly: r.Chance(1, 2), EdgePixels: c.Edge, DynamicThreshold: r.Chance(1, 4)}
	}
	c.NoWindow = !(focus == "C04" && r.Chance(3, 4)) && !r.Chance(1, 6)
	if !c.NoWindow {
		c.WinStart = r.Draw(24 * 60)
		c.WinStop = r.Draw(24 * 60)
		if c.WinStop == c.WinStart {
			c.WinStop = (c.WinStart + 1 + r.Draw(24*60-1)) % (24 * 60)
		}
		if r.Chance(1, 3) { // short window so that both boundaries are crossed in a run
			c.WinStop = (c.WinStart + 1 + r.Draw(3)) % (24 * 60)
		}
	}
	c.Cont = focus == "C17" || focus == "C12" && r.Chance(1, 2) || r.Chance(1, 8)

	nEv := r.Range(40, 300)
	if focus == "C01" && r.Chance(1, 3) {
		nEv = r.Range(300, 600)
	}
	period := time.Second / time.Duration(c.Fps)
	// wall clock start: near a window boundary when there is a window
	day := time.Date(2021, 3, 14, 0, 0, 0, 0, simZone) // local time of the device: not UTC, not on a whole hour
	if c.NoWindow {
		sc.Start = day.Add(time.Duration(r.Draw(86400)) * time.Second)
	} else {
		b := c.WinStart
		if r.Chance(1, 2) {
			b = c.WinStop
		}
		k := r.Draw(nEv)
		sc.Start = day.Add(time.Duration(b)*time.Minute - time.Duration(k)*period)
		if r.Chance(1, 4) {
			sc.Start = sc.Start.Add(time.Duration(r.Range(-2, 2)) * time.Nanosecond)
		}
	}
	// fault enabling (swarm)
	pBad, pClear, pTest := 0, 0, 0
	if r.Chance(1, 2) || focus == "C13" {
		pBad = r.OneOf(5, 20, 60)
	}
	if r.Chance(1, 2) {
		pClear = r.OneOf(5, 20)
	}
	if focus == "C17" || focus == "C12" || r.Chance(1, 6) {
		pTest = r.OneOf(5, 15, 40)
	}
	if focus == "C17" {
		pBad = 0
	}
	pDisk, pCreate := 0, 0
	if r.Chance(1, 2) {
		pDisk = r.OneOf(20, 100, 400)
	}
	if r.Chance(1, 2) {
		pCreate = r.OneOf(20, 100, 400)
	}
	pJump := 0
	if !c.NoWindow && r.Chance(1, 2) {
		pJump = r.OneOf(5, 30)
	}
	// the camera's own uptime clock (telemetry) need not advance by 1/fps per delivered frame: frames get
	// lost on the way, the camera stalls. Recording lengths are counted in frames.
	pUp := 0
	if r.Chance(1, 4) {
		pUp = r.OneOf(10, 40, 150)
	}
	// fault stratum: write/stop errors on the motion sink (separate from the fault-free stratum)
	if r.Chance(1, 4) {
		for i, n := 0, r.Range(1, 6); i < n; i++ {
			if r.Chance(2, 3) {
				sc.Plans[zz.SinkMotion].Add('W', r.Draw(nEv))
			} else {
				sc.Plans[zz.SinkMotion].Add('X', r.Draw(8))
			}
		}
	}
	capF := c.Preview*c.Fps + c.Trig
	maxF := c.MaxS * c.Fps
	for len(sc.Ev) < nEv {
		// one segment of motion pattern
		kind := r.Pick(3, 4, 2, 1)
		n := 1
		switch kind {
		case 0: // quiet
			n = r.Range(1, 2*capF+4)
		case 1: // burst
			n = r.Range(1, maxF+capF+4)
			if r.Chance(1, 3) {
				n = r.Range(1, c.Trig+2)
			}
		case 2: // flicker
			n = r.Range(2, 12)
		case 3: // long quiet
			n = r.Range(capF, 4*capF+10)
		}
		for i := 0; i < n && len(sc.Ev) < nEv; i++ {
			e := aEvent{Kind: 'F', Dt: period, DiskOK: true, CreateOK: true}
			switch kind {
			case 1:
				e.M = true
			case 2:
				e.M = r.Chance(1, 2)
			}
			if pDisk > 0 && r.Chance(pDisk, 1000) {
				e.DiskOK = false
			}
			if pCreate > 0 && r.Chance(pCreate, 1000) {
				e.CreateOK = false
			}
			if pJump > 0 && r.Chance(pJump, 1000) {
				switch r.Draw(3) {
				case 0:
					e.Dt = time.Duration(r.Range(-7200, 7200)) * time.Second
				case 1: // jump to just before a boundary
					b := c.WinStart
					if r.Chance(1, 2) {
						b = c.WinStop
					}
					e.Dt = -1 // marker: absolute jump, resolved at execution
					e.JumpMin = b
					e.JumpK = r.Range(0, 3)
				default:
					e.Dt = time.Duration(r.Range(0, 120)) * time.Second
				}
			}
			if pUp > 0 && r.Chance(pUp, 1000) {
				e.UpJumpMs = uint32(r.OneOf(300, 3500, 10000, 100000))
			}
			if pBad > 0 && r.Chance(pBad, 1000) {
				e.Kind = 'B'
				e.BadX = r.Range(c.Edge, c.W-c.Edge-1)
				e.BadY = r.Range(c.Edge, c.H-c.Edge-1)
			} else if pClear > 0 && r.Chance(pClear, 1000) {
				sc.Ev = append(sc.Ev, aEvent{Kind: 'C', DiskOK: true, CreateOK: true, Restart: r.Chance(1, 2)})
			} else if pTest > 0 && r.Chance(pTest, 1000) {
				sc.Ev = append(sc.Ev, aEvent{Kind: 'T', DiskOK: true, CreateOK: true})
			}
			sc.Ev = append(sc.Ev, e)
		}
	}
	return sc
}

type aWorld struct {
	sc    *aScenario
	tr    *zz.Trace
	sinks [3]*zz.Sink
	mp    *MotionProcessor
	clock *zz.SimClock
	win   zz.WinModel
	cam   zz.Cam
	// scene state
	blob      bool
	nextID    int
	ord       int
	upMs      uint32
	lastFFCMs uint32
	sent      map[int][][]uint16
	kind      map[int]byte
	tels      map[int]zz.Tel
	shadow    *motionDetector
	// frames are handed over through ProcessFrame (one re-used Frame object) instead of Process(raw bytes)
	viaProcessFrame bool
	src             *cptvframe.Frame
}

func newAWorld(sc *aScenario, opt aOpts) *aWorld {
	c := &sc.Cfg
	w := &aWorld{sc: sc, tr: &zz.Trace{}, cam: zz.Cam{W: c.W, H: c.H, Fps: c.Fps}, clock: &zz.SimClock{T: sc.Start}, sent: map[int][][]uint16{}, kind: map[int]byte{}, tels: map[int]zz.Tel{}}
	w.win = zz.WinModel{NoWindow: c.NoWindow, StartMin: c.WinStart, StopMin: c.WinStop}
	var win *window.Window
	var err error
	if c.NoWindow {
		win, err = window.New("12:00", "12:00", 0, 0)
	} else {
		win, err = window.New(hhmm(c.WinStart), hhmm(c.WinStop), 0, 0)
	}
	if err != nil {
		panic(err)
	}
	win.Now = w.clock.Now
	rc := &recorder.RecorderConfig{MinSecs: c.MinS, MaxSecs: c.MaxS, PreviewSecs: c.Preview, Window: *win}
	for i := range w.sinks {
		w.sinks[i] = zz.NewSink(w.tr, i)
		w.sinks[i].Plan = sc.Plans[i]
	}
	w.sinks[zz.SinkMotion].UseEventGates = true
	var cont recorder.Recorder
	if c.Cont && !opt.NoCont {
		cont = w.sinks[zz.SinkCont]
	}
	mc := c.Motion
	// Production settings reach the processor through config.toml -> go-config -> NewConfig (which validates
	// them): one run in three takes that road, so that whatever NewConfig does to a legal configuration is
	// part of the behaviour under test (the oracles use the settings as written in c.Motion). A rejection of
	// one of the generated configurations is not expected; should a later version refuse one, the run
	// continues with the settings as written.
	if verifsim.HashString(fmt.Sprintf("%+v", mc))%3 == 0 {
		if v, ok := viaConfigFile(mc); ok {
			mc = v
		}
	}
	var motionRec recorder.Recorder = w.sinks[zz.SinkMotion]
	if c.Thr != nil && !opt.NoThrottle {
		motionRec = throttle.NewThrottledRecorderWithClock(w.sinks[zz.SinkMotion], c.Thr, c.MinS+c.Preview, &thrListener{w.tr}, w.clock, w.cam)
	}
	w.mp = NewMotionProcessor(lepton3.ParseRawFrame, &mc, rc, &config.Location{}, &zz.Listener{T: w.tr},
		motionRec, w.cam, cont, w.sinks[zz.SinkTest])
	// ground truth for "motion frame": a second detector of the same package (verified on its own by A.det),
	// fed the accepted frames directly. The listener only tells what the processor chose to announce.
	w.shadow = NewMotionDetector(mc, rc.PreviewSecs*w.cam.FPS(), w.cam)
	w.upMs = 60000
	w.lastFFCMs = 1000
	if sc.ColdStart {
		w.upMs, w.lastFFCMs = 0, 0
	}
	// one scenario in five without bad frames takes the ProcessFrame road
	// (ProcessFrame serves neither the continuous nor the test recorder and cannot refuse a frame)
	w.viaProcessFrame = opt.AllowProcessFrame && !c.Cont && verifsim.HashString(fmt.Sprintf("%+v|%d", sc.Cfg, len(sc.Ev)))%5 == 0
	for i := range sc.Ev {
		if sc.Ev[i].Kind == 'B' || sc.Ev[i].Kind == 'T' {
			w.viaProcessFrame = false
		}
	}
	return w
}

type thrListener struct{ t *zz.Trace }

func (l *thrListener) WhenThrottled() { l.t.Cur().Throttled++ }

func hhmm(m int) string { return fmt.Sprintf("%02d:%02d", m/60, m%60) }

// scene produces the pixels of the next frame.
func (w *aWorld) scene(e *aEvent) [][]uint16 {
	if e.Pix != nil {
		return e.Pix
	}
	c := &w.sc.Cfg
	if e.M {
		w.blob = !w.blob
	}
	p := zz.NewPix(c.W, c.H, c.Base)
	if w.blob {
		// a blob strictly inside the border, large enough for count-thresh up to 3
		n := 0
		for y := c.Edge; y < c.H-c.Edge && n < 4; y++ {
			for x := c.Edge; x < c.W-c.Edge && n < 4; x++ {
				p[y][x] = c.Base + 300
				n++
			}
		}
	}
	// border pixels carry noise that must be irrelevant
	if c.Edge > 0 {
		p[0][0] = uint16(w.nextID*7 + 1)
	}
	return p
}

func (w *aWorld) advanceClock(e *aEvent) {
	if e.Dt == -1 {
		// absolute jump: to JumpK frame periods before boundary JumpMin on the current day
		t := w.clock.T
		day := time.Date(t.Year(), t.Month(), t.Day(), 0, 0, 0, 0, t.Location())
		w.clock.T = day.Add(time.Duration(e.JumpMin)*time.Minute - time.Duration(e.JumpK)*time.Second/time.Duration(w.sc.Cfg.Fps))
	} else {
		w.clock.Advance(e.Dt)
	}
}

func (w *aWorld) exec(opt aOpts) *zz.Trace {
	c := &w.sc.Cfg
	period := uint32(1000 / c.Fps)
	raw := make([]byte, zz.LeptonRawSize(c.W, c.H))
	for i := range w.sc.Ev {
		e := &w.sc.Ev[i]
		if i == opt.SkipEv {
			w.advanceClock(e)
			if e.Kind == 'F' || e.Kind == 'B' {
				w.scene(e) // the scene evolves whether or not the frame is delivered
				w.nextID++
				w.upMs += period + e.UpJumpMs
				if e.FFC {
					w.lastFFCMs = w.upMs
				}
			}
			continue
		}
		if e.Kind == 'T' && opt.NoTest {
			continue
		}
		w.advanceClock(e)
		open, edge := w.win.At(w.clock.T)
		ev := w.tr.Begin(zz.Event{Kind: e.Kind, ID: -1, Ord: -1, WinOpen: open, WinEdge: edge, DiskOK: e.DiskOK, CreateOK: e.CreateOK})
		func() {
			defer func() {
				if p := recover(); p != nil {
					ev.Panic = fmt.Sprint(p)
				}
			}()
			switch e.Kind {
			case 'F', 'B':
				id := w.nextID
				w.nextID++
				w.upMs += period + e.UpJumpMs
				if e.FFC {
					w.lastFFCMs = w.upMs
				}
				pix := w.scene(e)
				if e.Kind == 'B' || e.BZ > 0 {
					pix = zz.ClonePix(pix)
				}
				if e.Kind == 'B' {
					pix[e.BadY][e.BadX] = 0
				}
				for k := 0; k < e.BZ && c.Edge > 0; k++ {
					// zero pixels in the border only: rows/columns < edge or >= size-edge
					h := verifsim.Mix(uint64(id), uint64(k))
					switch h % 4 {
					case 0:
						pix[int(h>>8)%c.Edge][int(h>>16)%c.W] = 0
					case 1:
						pix[c.H-1-int(h>>8)%c.Edge][int(h>>16)%c.W] = 0
					case 2:
						pix[int(h>>16)%c.H][int(h>>8)%c.Edge] = 0
					default:
						pix[int(h>>16)%c.H][c.W-1-int(h>>8)%c.Edge] = 0
					}
				}
				hh := verifsim.Mix(uint64(id), uint64(w.sc.Start.Unix()))
				tel := zz.Tel{TimeOnMs: w.upMs, LastFFCMs: w.lastFFCMs, FrameCount: uint32(id), FPATemp: uint16(27000 + hh%6000), FPATempFFC: uint16(27000 + (hh>>16)%6000),
					FrameMean: uint16(hh >> 32), StatusBits: uint32(hh>>40) &^ 0x30, Noise: uint16(hh >> 48)}
				if e.Tel != nil {
					tel = *e.Tel
					tel.FrameCount = uint32(id)
				}
				ev.ID = id
				ev.Sum = zz.SumPix(pix)
				ev.FFC = tel.TimeOn()-tel.LastFFCTime() < 10*time.Second
				w.sent[id] = pix
				w.kind[id] = e.Kind
				w.tels[id] = tel
				var err error
				if w.viaProcessFrame {
					// the exported entry point for already parsed frames; the caller re-uses one Frame object
					// (as the project's CPTV playback tester does): the processor must keep its own copy
					if w.src == nil {
						w.src = cptvframe.NewFrame(w.cam)
					}
					for y := range pix {
						copy(w.src.Pix[y], pix[y])
					}
					w.src.Status = cptvframe.Telemetry{TimeOn: tel.TimeOn(), LastFFCTime: tel.LastFFCTime(), FrameCount: int(tel.FrameCount),
						FrameMean: tel.FrameMean, TempC: tel.TempC(), LastFFCTempC: tel.LastFFCTempC()}
					w.mp.ProcessFrame(w.src)
				} else {
					zz.PutLeptonTelemetry(raw, tel)
					zz.PutLeptonPixels(raw, pix)
					err = w.mp.Process(raw)
				}
				switch err.(type) {
				case nil:
					ev.Ord = w.ord
					w.ord++
					f := cptvframe.NewFrame(w.cam)
					for y := range pix {
						copy(f.Pix[y], pix[y])
					}
					f.Status.TimeOn, f.Status.LastFFCTime = tel.TimeOn(), tel.LastFFCTime()
					ev.Truth, ev.HasTruth = w.shadow.Detect(f), true
				case *lepton3.BadFrameErr:
					ev.ErrKind = 'b'
				default:
					ev.ErrKind = 'e'
				}
			case 'C':
				if e.Restart {
					// the marker follows a power cycle: the telemetry clock restarted (20 s ago, with an FFC at 1 s)
					w.upMs, w.lastFFCMs = 20000, 1000
					if w.sc.ColdStart {
						w.upMs, w.lastFFCMs = 0, 0
					}
				}
				w.mp.Reset(w.cam)
				w.shadow.Reset(w.cam)
			case 'T':
				w.mp.StartSnapshot = true
			}
		}()
		ev.Thresh = w.mp.motionDetector.tempThresh
		if opt.After != nil {
			opt.After(len(w.tr.Ev)-1, w)
		}
	}
	return w.tr
}

// ---- unit A.rec : C01 C02 C03 C04 ------------------------------------------------

func runARec(r *verifsim.Run) {
	sc := genRecScenario(r, r.Prop)
	c := &sc.Cfg
	r.Set("cfg", fmt.Sprintf("%dx%d@%dfps edge%d preview%ds min%ds max%ds trig%d exact=%v window=%v[%s-%s] cont=%v", c.W, c.H, c.Fps, c.Edge, c.Preview, c.MinS, c.MaxS, c.Trig, c.Exact, !c.NoWindow, hhmm(c.WinStart), hhmm(c.WinStop), c.Cont))
	r.Set("events", evString(sc.Ev))
	w := newAWorld(sc, aOpts{SkipEv: -1, AllowProcessFrame: true})
	tr := w.exec(aOpts{SkipEv: -1})
	if w.viaProcessFrame {
		r.Probe("frames-handed-over-through-ProcessFrame")
	}
	r.SimTime(w.clock.T.Sub(sc.Start))
	r.Count("frames", w.nextID)
	for i := range tr.Ev {
		if tr.Ev[i].Panic != "" {
			r.Violate("C12", "C12.panic", "process", "panic while handling event %d (%c): %s", i, tr.Ev[i].Kind, tr.Ev[i].Panic)
			if r.Prop != "C12" {
				return // state after a panic is undefined; C12 reports it
			}
		}
	}
	for _, s := range w.sinks {
		for k, n := range s.Fired {
			for i := 0; i < n; i++ {
				r.Fault(k)
			}
		}
	}
	// a frame written to the motion sink is the frame that was received under that number, pixel for pixel
	// (the processor keeps its own copy of whatever the caller hands over)
	for i := range tr.Ev {
		for _, cl := range tr.Ev[i].Calls[zz.SinkMotion] {
			if cl.Op != 'W' {
				continue
			}
			if pix, ok := w.sent[cl.ID]; ok && zz.SumPix(pix) != cl.Sum {
				what, prop, rule := "a frame of the recording", "C01", "C01.content"
				if i < len(tr.Ev) && tr.Ev[i].ID != cl.ID {
					what, prop, rule = "a pre-trigger frame", "C02", "C02.content"
				}
				r.Violate(prop, rule, "pixels", "%s (frame id %d, written while event %d was processed) reached the recorder with pixels other than those received under that number", what, cl.ID, i)
				if r.Failed() {
					return
				}
			}
		}
	}
	zz.CheckRecRules(r, tr, c.params())
	// non-triviality: >= 2 recordings and at least one of {re-trigger within reach, refused start, cap reached, cut}
	recs, _ := tr.Protocol(zz.SinkMotion)
	if len(recs) >= 2 {
		sig := fmt.Sprintf("cap%d/min%d/max%d/trig%d:", c.params().Cap, c.params().MinF, c.params().MaxF, c.Trig)
		for _, rc := range recs {
			sig += fmt.Sprintf("%d+%d,", tr.Ev[rc.StartEv].Ord, len(rc.IDs))
		}
		r.Nontrivial(sig)
	}
	r.Count("recordings", len(recs))
}

func evString(ev []aEvent) string {
	b := make([]byte, 0, len(ev))
	for i := range ev {
		e := &ev[i]
		ch := byte('.')
		switch e.Kind {
		case 'F':
			if e.M {
				ch = 'm'
			}
			if !e.DiskOK {
				ch = 'd'
				if e.M {
					ch = 'D'
				}
			}
			if !e.CreateOK {
				ch = 'k'
				if e.M {
					ch = 'K'
				}
			}
		default:
			ch = e.Kind
		}
		b = append(b, ch)
	}
	return string(b)
}

// viaConfigFile writes the settings as the [thermal-motion] section of a config.toml and reads them back
// the way the daemon does.
func viaConfigFile(m config.ThermalMotion) (config.ThermalMotion, bool) {
	root := os.Getenv("VERIF_SCRATCH")
	if root == "" {
		root = os.TempDir()
	}
	dir, err := os.MkdirTemp(root, "vm")
	if err != nil {
		panic(err)
	}
	defer os.RemoveAll(dir)
	toml := fmt.Sprintf("[thermal-motion]\ndynamic-threshold = %v\ntemp-thresh-min = %d\ntemp-thresh-max = %d\ntemp-thresh = %d\ndelta-thresh = %d\ncount-thresh = %d\nframe-compare-gap = %d\nuse-one-diff-only = %v\ntrigger-frames = %d\nwarmer-only = %v\nedge-pixels = %d\nverbose = %v\n",
		m.DynamicThreshold, m.TempThreshMin, m.TempThreshMax, m.TempThresh, m.DeltaThresh, m.CountThresh, m.FrameCompareGap, m.UseOneDiffOnly, m.TriggerFrames, m.WarmerOnly, m.EdgePixels, m.Verbose)
	if err := os.WriteFile(filepath.Join(dir, config.ConfigFileName), []byte(toml), 0644); err != nil {
		panic(err)
	}
	rw, err := config.New(dir)
	if err != nil {
		panic(fmt.Sprintf("go-config rejected the generated file: %v", err))
	}
	got, err := NewConfig(rw, lepton3.Model)
	if err != nil {
		return m, false
	}
	return *got, true
}
