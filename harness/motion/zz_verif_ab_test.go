//go:build verif

package motion

// Unit AB.thr: the real MotionProcessor feeding the real ThrottledRecorder
// (+ ratelimit bucket on the simulated clock) feeding the tracing sink - the
// composition main.go wires. Serves C05 (bound under continuous motion), C06
// (pairing/cuts/events seen by storage), C04 (start rule at the processor level
// with the throttle in between) and C17 (continuous/test sinks independent of
// throttling).

import (
	"fmt"
	"time"

	config "github.com/TheCacophonyProject/go-config"
	zz "github.com/TheCacophonyProject/thermal-recorder/zzverif"

	"verifsim"
)

func runAB(r *verifsim.Run) {
	sc := genRecScenario(r, "AB")
	c := &sc.Cfg
	bucketS := r.OneOf(1, 2, 3, 5, 10, r.Range(1, 30))
	refillS := r.OneOf(1, 2, 5, 20, r.Range(1, 90))
	c.Thr = &config.ThermalThrottler{Activate: true, BucketSize: time.Duration(bucketS) * time.Second, MinRefill: time.Duration(refillS) * time.Second}
	c.Cont = r.Chance(1, 2)
	if !c.Exact && r.Chance(1, 2) {
		c.Motion.DynamicThreshold = true
	}
	if c.MinS+c.Preview == 0 {
		// refill rate 0 (min-secs + preview-secs = 0) is outside C05's quantifier ("refill > 0");
		// the rate limiter library refuses it (observation recorded in DESIGN.md)
		c.MinS = 1
		if c.MaxS < c.MinS {
			c.MaxS = c.MinS
		}
	}
	sc.Plans = [3]zz.FaultPlan{}
	if r.Chance(1, 4) {
		// storage failures behind the throttle: stop (final rename) and start (file creation) errors
		for i, k := 0, r.Range(1, 4); i < k; i++ {
			if r.Chance(2, 3) {
				sc.Plans[zz.SinkMotion].Add('X', r.Draw(8))
			} else {
				sc.Plans[zz.SinkMotion].Add('S', r.Draw(8))
			}
		}
	}
	faulty := len(sc.Plans[zz.SinkMotion].Fail) > 0
	period := time.Second / time.Duration(c.Fps)
	for i := range sc.Ev {
		e := &sc.Ev[i]
		e.CreateOK = true
		if e.Kind == 'B' {
			e.Kind = 'F'
		}
		if e.Dt != period { // monotonic clock: no backward jumps; keep occasional long pauses
			if e.Dt < 0 {
				e.Dt = period
			}
		}
	}
	sc.Ev = nonOverlappingRequests(sc.Ev)
	// long stretches of continuous motion so that the bucket runs dry
	if r.Chance(2, 3) {
		from := r.Draw(len(sc.Ev))
		for i := from; i < len(sc.Ev) && i < from+r.Range(20, 250); i++ {
			if sc.Ev[i].Kind == 'F' {
				sc.Ev[i].M = true
			}
		}
	}
	describe(r, sc)
	M := (c.MinS + c.Preview) * c.Fps
	C := float64(bucketS * c.Fps)
	rho := float64(M) / float64(refillS)
	r.Set("throttle", fmt.Sprintf("bucket%ds refill%ds minclip %d frames capacity %v rate %.3f/s", bucketS, refillS, M, C, rho))
	// background/threshold of the detector at each processor-level trigger (in-package observation)
	type trig struct {
		thresh uint16
		bg     uint64
	}
	var lastTrig *trig
	var trigOfEv = map[int]*trig{}
	w := newAWorld(sc, aOpts{SkipEv: -1})
	tr := w.tr
	w.exec(aOpts{SkipEv: -1, After: func(i int, w *aWorld) {
		if tr.Ev[i].Started {
			d := w.mp.motionDetector
			lastTrig = &trig{d.tempThresh, zz.SumPix(d.background.Pix)}
		}
		trigOfEv[i] = lastTrig
	}})
	for i := range tr.Ev {
		for _, cl := range tr.Ev[i].Calls[zz.SinkMotion] {
			if cl.Op != 'S' || cl.Err {
				continue // (an injected file-creation failure is not a stored recording)
			}
			tg := trigOfEv[i]
			if tg == nil || cl.Bg == nil || cl.Thresh != tg.thresh || zz.SumPix(cl.Bg) != tg.bg {
				kind := "start"
				if !tr.Ev[i].Started {
					kind = "mid-trigger-restart"
				}
				got := -1
				if tg != nil {
					got = int(tg.thresh)
				}
				r.Violate("C15", "C15.stored", "throttled:"+kind, "event %d: the file started behind the throttle (%s) was given threshold %d / a background that differ from the detector's at its trigger (threshold %d)", i, kind, cl.Thresh, got)
				r.Violate("C11", "C11.trigger-thresh", "throttled:"+kind, "event %d: the file started behind the throttle (%s) is stored with threshold %d, the threshold at trigger time was %d", i, kind, cl.Thresh, got)
			} else if !tr.Ev[i].Started {
				r.Probe("restart-args-checked")
			}
		}
	}
	r.SimTime(w.clock.T.Sub(sc.Start))
	r.Count("frames", w.nextID)
	for i := range tr.Ev {
		if tr.Ev[i].Panic != "" {
			r.Violate("C12", "C12.panic", "process", "panic in event %d: %s", i, tr.Ev[i].Panic)
			return
		}
	}
	// event times
	times := make([]time.Time, len(tr.Ev))
	{
		t := sc.Start
		k := 0
		for i := range sc.Ev {
			t = t.Add(sc.Ev[i].Dt)
			if k < len(tr.Ev) {
				times[k] = t
				k++
			}
		}
	}
	// ---- C05: bound over every interval of writes reaching storage
	var wt []time.Time
	p := c.params()
	for i := range tr.Ev {
		for _, cl := range tr.Ev[i].Calls[zz.SinkMotion] {
			if cl.Op != 'W' {
				continue
			}
			wt = append(wt, times[i])
			n := len(wt)
			for j := n - 1; j >= 0; j-- {
				cnt := float64(n - j)
				dt := times[i].Sub(wt[j]).Seconds()
				if cnt > C+1.01*rho*dt+2 {
					r.Violate("C05", "C05.bound", "composed", "%v frames reached storage within %.3fs through the real motion processor; bound is capacity %v + 1.01 x %.4f x %.3f + 2 = %.2f", cnt, dt, C, rho, dt, C+1.01*rho*dt+2)
					j = -1
					break
				}
				if 1.01*rho*dt > cnt+1 {
					break
				}
			}
		}
	}
	// ---- C06: what storage sees
	recs, bad := tr.Protocol(zz.SinkMotion)
	if bad != "" {
		r.Violate("C06", "C06.pairing", "composed:"+stripAt(bad), "storage behind the throttle saw %s (calls: %s)", bad, tr.CallString(zz.SinkMotion, 0, len(tr.Ev)))
		r.Violate("C12", "C12.protocol", "throttled:"+stripAt(bad), "storage behind the throttle saw %s after storage failures (calls: %s)", bad, tr.CallString(zz.SinkMotion, 0, len(tr.Ev)))
	} else {
		for k, rc := range recs {
			if rc.StopEv < 0 {
				continue
			}
			// a cut: the stop happens in an event in which the processor did not end its recording
			e := &tr.Ev[rc.StopEv]
			if !e.Ended && e.Kind == 'F' {
				r.Probe("composed-throttle-cut")
				if len(rc.IDs) < M {
					r.Violate("C06", "C06.cut-short", "composed", "file %d was cut by the throttle after %d frames; a minimum clip is %d", k, len(rc.IDs), M)
				}
				if e.Throttled != 1 {
					r.Violate("C06", "C06.events", "composed:cut", "throttle cut at event %d emitted %d events", rc.StopEv, e.Throttled)
				}
			}
		}
		for i := range tr.Ev {
			e := &tr.Ev[i]
			started := false
			for _, cl := range e.Calls[zz.SinkMotion] {
				if cl.Op == 'S' && !cl.Err {
					started = true
				}
			}
			if e.Started && !started {
				r.Probe("composed-start-suppressed")
				if e.Throttled != 1 {
					r.Violate("C06", "C06.events", "composed:suppressed-start", "suppressed start at event %d emitted %d events", i, e.Throttled)
				}
			}
			if started && !e.Started {
				r.Probe("composed-mid-trigger-restart")
			}
			if e.Throttled > 1 {
				r.Violate("C06", "C06.events", "composed:per-frame", "%d 'throttled' events during one frame (event %d)", e.Throttled, i)
			}
		}
	}
	// ---- C04 at the processor level: RecordingStarted iff the conjuncts hold (create always OK here)
	open, run := false, 0
	for i := range tr.Ev {
		if faulty {
			break // with injected file-creation failures "create OK" no longer holds: the rule is evaluated in the fault-free stratum
		}
		e := &tr.Ev[i]
		if e.Kind == 'F' && e.Ord >= 0 {
			if e.Motion {
				run++
			} else {
				run = 0
			}
			if !open {
				want := e.Motion && run >= p.Trig && e.WinOpen && e.DiskOK
				if want != e.Started && e.WinEdge {
					want = e.Motion && run >= p.Trig && !e.WinOpen && e.DiskOK
				}
				if want != e.Started {
					sig := "missed"
					if e.Started {
						sig = "spurious"
					}
					why := "all"
					switch {
					case !e.Motion:
						why = "no-motion"
					case run < p.Trig:
						why = "short-run"
					case !e.WinOpen:
						why = "window"
					case !e.DiskOK:
						why = "disk"
					}
					r.Violate("C04", "C04."+sig, "throttled:"+why, "event %d (throttle active): processor started recording=%v but motion=%v run=%d trigger=%d window=%v disk=%v", i, e.Started, e.Motion, run, p.Trig, e.WinOpen, e.DiskOK)
					break
				}
				if !e.DiskOK && e.Motion && run >= p.Trig {
					r.Probe("composed-disk-refusal")
				}
			}
		}
		if e.Started {
			open = true
		}
		if e.Ended {
			open = false
			run = 0
		}
	}
	// ---- C17: continuous and test sinks do not depend on throttling
	_, trNo := runScenario(sc, aOpts{SkipEv: -1, NoThrottle: true})
	if d := zz.SameSink(tr, trNo, zz.SinkCont); d != "" {
		r.Violate("C17", "C17.independent", "throttle:continuous", "continuous sink differs with/without throttling: %s", d)
	}
	if d := zz.SameSink(tr, trNo, zz.SinkTest); d != "" {
		r.Violate("C17", "C17.independent", "throttle:test", "test sink differs with/without throttling: %s", d)
	}
	if d := zz.SameMotion(tr, trNo); d != "" {
		r.Violate("C17", "C17.independent", "throttle:detection", "detection differs with/without throttling: %s", d)
	}
	if c.Cont {
		zz.CheckContinuous(r, tr, c.MaxS*c.Fps, "C17", "C17.cont")
	}
	zz.CheckTestRecordings(r, tr)
	nCut := 0
	for _, rc := range recs {
		if rc.StopEv >= 0 && !tr.Ev[rc.StopEv].Ended {
			nCut++
		}
	}
	if len(wt) > 0 && (nCut > 0 || len(recs) >= 2) {
		r.Nontrivial(fmt.Sprintf("%v:%d/%d:%s", *c.Thr, len(recs), nCut, evString(sc.Ev)))
	}
	r.Distinct("ab", fmt.Sprintf("C%v:M%d:cuts%d:recs%d", C, M, nCut, len(recs)))
}
