//go:build verif

package motion

// Unit A.ring (C19): the FrameLoop through its exported API against R-ring.
// No schedule/clock/fault dimension (concurrent CopyRecent belongs to C16).

import (
	"fmt"

	zz "github.com/TheCacophonyProject/thermal-recorder/zzverif"

	"verifsim"
)

func runARing(r *verifsim.Run) {
	capN := r.Range(1, 12)
	if r.Chance(1, 3) {
		capN = r.Range(1, 4)
	}
	fl := NewFrameLoop(capN, zz.Cam{W: 2, H: 2, Fps: 9})
	m := zz.NewRingModel(capN)
	// every slot starts with a recognisable "never written" tag
	for i, f := range fl.frames {
		f.Status.FrameCount = -1000 - i
	}
	n := r.Range(1, 6*capN+4)
	queryEvery := r.OneOf(1, 1, 2, 3, capN, 2*capN+1)
	if queryEvery < 1 {
		queryEvery = 1
	}
	tag := 0
	var ops []byte
	written := map[int]bool{} // positions written since reset
	state := func() string {
		mk := -1
		if m.MarkPos >= 0 && m.MarkPos > m.Pos-m.Cap {
			mk = m.Pos - m.MarkPos
		}
		return fmt.Sprintf("cap%d:pos%d:full%v:mark%d", capN, m.Pos%capN, m.Pos >= capN, mk)
	}
	check := func(step int) bool {
		want := m.History()
		got := fl.GetHistory()
		if len(got) != len(want) {
			r.Violate("C19", "C19.history", "length", "capacity %d after ops %s: history has %d frames, expected %d (positions %v since reset; mark %d)", capN, ops, len(got), len(want), want, m.MarkPos)
			return false
		}
		if len(got) > capN {
			r.Violate("C19", "C19.history", "over-capacity", "history of %d frames from a ring of capacity %d", len(got), capN)
			return false
		}
		for i, p := range want {
			if !written[p] {
				if p != m.Pos {
					r.Violate("C19", "C19.model", "", "model inconsistency: position %d retained but never written", p)
					return false
				}
				continue
			}
			if g := got[i].Status.FrameCount; g != m.Tags[p] {
				sig := "content"
				if g <= -1000 {
					sig = "unwritten-slot"
				} else if g < m.Tags[want[0]] {
					sig = "older-than-retained"
				}
				r.Violate("C19", "C19.history", sig, "capacity %d after ops %s: history[%d] holds tag %d, expected %d (history tags must be positions %v)", capN, ops, i, g, m.Tags[p], want)
				return false
			}
		}
		// Oldest
		op := want[0]
		if !(m.MarkPos >= 0 && m.MarkPos > m.Pos-m.Cap) {
			op = m.Pos - m.Cap + 1
		}
		if op >= 0 && written[op] {
			if g := fl.Oldest().Status.FrameCount; g != m.Tags[op] {
				sig := "content"
				if g <= -1000 {
					sig = "unwritten-slot"
				}
				r.Violate("C19", "C19.oldest", sig, "capacity %d after ops %s: Oldest() holds tag %d, expected %d (mark position %d, current position %d)", capN, ops, g, m.Tags[op], m.MarkPos, m.Pos)
				return false
			}
		}
		// recent = the frame before the current one
		if capN > 1 && m.Pos >= 1 && written[m.Pos-1] {
			if g := fl.CopyRecent().Status.FrameCount; g != m.Tags[m.Pos-1] {
				r.Violate("C19", "C19.recent", "", "capacity %d after ops %s: CopyRecent() holds tag %d, expected %d", capN, ops, g, m.Tags[m.Pos-1])
				return false
			}
		}
		// current
		if written[m.Pos] {
			if g := fl.Current().Status.FrameCount; g != m.Tags[m.Pos] {
				r.Violate("C19", "C19.current", "", "capacity %d after ops %s: Current() holds tag %d, expected %d", capN, ops, g, m.Tags[m.Pos])
				return false
			}
		}
		r.Distinct("c19.state", state())
		return true
	}
	defer func() {
		if p := recover(); p != nil {
			r.Violate("C19", "C19.panic", "", "capacity %d after ops %s: the ring buffer panicked: %v", capN, ops, p)
		}
	}()
	for step := 0; step < n; step++ {
		switch r.Pick(2, 8, 2, 1) {
		case 0: // write only
			tag++
			fl.Current().Status.FrameCount = tag
			m.Write(tag)
			written[m.Pos] = true
			ops = append(ops, 'w')
		case 1: // write + move (the normal frame cycle)
			tag++
			fl.Current().Status.FrameCount = tag
			m.Write(tag)
			written[m.Pos] = true
			fl.Move()
			m.Move()
			ops = append(ops, 'M')
		case 2:
			fl.SetAsOldest()
			m.SetAsOldest()
			ops = append(ops, 'o')
			r.Probe("set-as-oldest")
		case 3:
			fl.Reset()
			m.Reset()
			written = map[int]bool{}
			ops = append(ops, 'R')
			r.Probe("reset")
		}
		if m.MarkPos >= 0 && m.MarkPos == m.Pos-m.Cap+1 && m.Pos >= m.Cap {
			r.Probe("mark-at-last-retained-slot")
		}
		// queries are not made after every operation in every run: a cached view that is only
		// refreshed by a query must still be right when the next query comes many moves later
		if step == n-1 || r.Draw(queryEvery) == 0 {
			if !check(step) {
				return
			}
		}
	}
	r.Set("capacity", capN)
	r.Set("ops", string(ops))
	if len(ops) >= 3 {
		r.Nontrivial(fmt.Sprintf("%d:%s", capN, ops))
	}
}
