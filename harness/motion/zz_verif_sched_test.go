//go:build verif

//go:debug asynctimerchan=0

package motion

// Unit A.sched (C17, C16): the real MotionProcessor under the seeded task scheduler, without
// files: a frame-loop task calls Process (instrumented motionprocessor.go / frameloop.go, and a
// frame parser that yields between pixel rows), client tasks call RequestSnapshotRecording and
// GetRecentFrame at tape-chosen instants of the step clock. Sinks record the scheduler step of
// every call, so "the request arrived after the 21st frame of the previous test recording had
// been written" is decided exactly.

import (
	"fmt"
	"testing"
	"testing/synctest"

	config "github.com/TheCacophonyProject/go-config"
	"github.com/TheCacophonyProject/go-cptv/cptvframe"
	"github.com/TheCacophonyProject/lepton3"
	"github.com/TheCacophonyProject/thermal-recorder/recorder"
	zz "github.com/TheCacophonyProject/thermal-recorder/zzverif"
	"github.com/TheCacophonyProject/window"

	"verifsim"
)

var theT *testing.T

type stepCall struct {
	op   byte
	id   int
	step int
	err  bool
}

type stepSink struct {
	s     *verifsim.Sched
	calls []stepCall
}

func (k *stepSink) CheckCanRecord() error { return nil }
func (k *stepSink) StartRecording(bg *cptvframe.Frame, th uint16) error {
	k.calls = append(k.calls, stepCall{'S', -1, k.s.Steps, false})
	return nil
}
func (k *stepSink) WriteFrame(f *cptvframe.Frame) error {
	k.calls = append(k.calls, stepCall{'W', int(f.Pix[0][0]), k.s.Steps, false})
	return nil
}
func (k *stepSink) StopRecording() error {
	verifsim.Yield("test-sink:closing-file") // closing a file takes time: requests may arrive meanwhile
	k.calls = append(k.calls, stepCall{'X', -1, k.s.Steps, false})
	return nil
}

type schedReq struct {
	kind     byte // 't' request a test recording, 'g' GetRecentFrame
	inv, ret int
	value    int
	torn     string
	frameNum uint32
}

func runASched(r *verifsim.Run) {
	w, h := r.Range(3, 5), r.Range(3, 5)
	fps := r.OneOf(1, 2, 3, 9)
	preview := r.Draw(2)
	trig := r.Range(1, 3)
	if preview*fps+trig < 2 {
		trig = 2
	}
	nFrames := r.Range(10, 90)
	bad := map[int]bool{}
	for i := 2; i < nFrames; i++ {
		if r.Chance(1, 25) {
			bad[i] = true
		}
	}
	sniper := r.Chance(1, 3)
	nClients := r.Range(1, 3)
	var gaps [][]int
	var kinds [][]byte
	for c := 0; c < nClients; c++ {
		var g []int
		var k []byte
		for i, n := 0, r.Range(1, 8); i < n; i++ {
			g = append(g, r.OneOf(0, 1, 3, r.Range(0, 40), r.Range(0, 400), r.Range(0, 60*nFrames)))
			k = append(k, "ttg"[r.Draw(3)])
		}
		gaps = append(gaps, g)
		kinds = append(kinds, k)
	}
	r.Set("cfg", fmt.Sprintf("%dx%d@%dfps preview%d trig%d frames%d bad%v", w, h, fps, preview, trig, nFrames, len(bad)))
	r.Set("clients", fmt.Sprintf("%v %q", gaps, kinds))

	cam := zz.Cam{W: w, H: h, Fps: fps}
	var reqs []schedReq
	var start, done []int // per frame: step at Process entry / return
	var test *stepSink
	deadlock, panicMsg := "", ""
	var steps, switches int
	var sig uint64
	ran := make(chan struct{})
	go func() {
		defer close(ran)
		defer func() {
			if p := recover(); p != nil && deadlock == "" {
				deadlock = fmt.Sprint(p)
			}
		}()
		synctest.Test(theT, func(t *testing.T) {
			s := verifsim.NewSched(r)
			defer s.Close()
			verifsim.PanicHandler = func(task string, p interface{}) {
				if panicMsg == "" {
					panicMsg = fmt.Sprintf("task %s: %v", task, p)
				}
			}
			test = &stepSink{s: s}
			win, _ := window.New("12:00", "12:00", 0, 0)
			rc := &recorder.RecorderConfig{MinSecs: 1, MaxSecs: 2, PreviewSecs: preview, Window: *win}
			mc := config.ThermalMotion{TempThresh: 1, DeltaThresh: 60000, CountThresh: 1, FrameCompareGap: 1, UseOneDiffOnly: true, TriggerFrames: trig}
			cur := 0
			parse := func(raw []byte, out *cptvframe.Frame, edge int) error {
				// uniform frame of value cur+1; rows are filled one at a time with a yield in between, so a
				// request can be served in the middle of a parse (as with the instrumented Boson converter)
				for y := range out.Pix {
					for x := range out.Pix[y] {
						out.Pix[y][x] = uint16(cur + 1)
					}
					if bad[cur] && y == h/2 {
						out.Pix[y][w/2] = 0
						return &lepton3.BadFrameErr{Cause: fmt.Errorf("zero pixel")}
					}
					verifsim.Yield("parser:between-rows")
				}
				out.Status = cptvframe.Telemetry{TimeOn: 1e9 * 60, LastFFCTime: 1e9}
				return nil
			}
			mp := NewMotionProcessor(parse, &mc, rc, &config.Location{}, nil, &recorder.NoWriteRecorder{}, cam, nil, test)
			s.Go("frame-loop", func() {
				for cur = 0; cur < nFrames; cur++ {
					start = append(start, s.Steps)
					done = append(done, 1<<30)
					func() {
						defer func() {
							if p := recover(); p != nil {
								if verifsim.IsAbort(p) {
									panic(p)
								}
								if panicMsg == "" {
									panicMsg = fmt.Sprintf("Process panicked on frame %d: %v", cur+1, p)
								}
							}
						}()
						mp.Process(nil)
					}()
					done[cur] = s.Steps
					verifsim.Yield("frame-loop:between-frames")
				}
			})
			for c := 0; c < nClients; c++ {
				c := c
				s.Go(fmt.Sprintf("client%d", c), func() {
					for i := range gaps[c] {
						verifsim.SleepSteps(gaps[c][i])
						q := schedReq{kind: kinds[c][i], inv: s.Steps, value: -1}
						switch q.kind {
						case 't':
							mp.RequestSnapshotRecording()
						case 'g':
							n, f := mp.GetRecentFrame()
							q.frameNum = n
							if f != nil {
								v := f.Pix[0][0]
								q.value = int(v)
								for y := range f.Pix {
									for x := range f.Pix[y] {
										if f.Pix[y][x] != v && q.torn == "" {
											q.torn = fmt.Sprintf("pixel (0,0)=%d but (%d,%d)=%d", v, y, x, f.Pix[y][x])
										}
									}
								}
							}
						}
						q.ret = s.Steps
						reqs = append(reqs, q)
					}
				})
			}
			if sniper {
				// a client that asks again exactly while the previous test recording's file is being closed
				// (21 frames written, stop not yet finished): a non-overlapping request by the statement
				s.Go("client-after-21st-frame", func() {
					fired := 0
					for i := 0; i < 40*nFrames && fired < 3; i++ {
						verifsim.SleepSteps(1)
						n, closing := 0, false
						for _, c := range test.calls {
							switch c.op {
							case 'S':
								n, closing = 0, false
							case 'W':
								n++
								closing = n == 21
							case 'X':
								closing = false
							}
						}
						if closing {
							q := schedReq{kind: 't', inv: s.Steps, value: -1}
							mp.RequestSnapshotRecording()
							q.ret = s.Steps
							reqs = append(reqs, q)
							fired++
							verifsim.SleepSteps(30)
						}
					}
				})
			}
			s.Run()
			deadlock = s.Deadlock
			steps, switches, sig = s.Steps, s.Switches, s.Signature()
		})
	}()
	<-ran
	verifsim.SetMode(verifsim.ModeOff)
	r.Count("steps", steps)
	r.Count("context_switches", switches)
	r.Logf("steps=%d switches=%d sig=%016x reqs=%d", steps, switches, sig, len(reqs))
	if panicMsg != "" {
		r.Violate("C16", "C16.panic", "processor", "%s", panicMsg)
		r.Violate("C17", "C17.test", "panic", "%s", panicMsg)
		return
	}
	if deadlock != "" {
		r.Violate("C16", "C16.stall", "processor", "%s", deadlock)
		return
	}
	if len(start) != nFrames {
		r.Violate("C16", "C16.stall", "frames-lost", "%d of %d frames processed", len(start), nFrames)
		return
	}
	// ---- C16 at the processor level: whole frames, fresh enough
	for qi, q := range reqs {
		if q.kind != 'g' {
			continue
		}
		if q.torn != "" {
			r.Violate("C16", "C16.whole-frame", "mixture", "GetRecentFrame request %d (steps %d..%d) returned a mixture of two frames: %s", qi, q.inv, q.ret, q.torn)
			return
		}
		lower, upper := 0, 0
		for i := 0; i < nFrames; i++ {
			if !bad[i] && done[i] <= q.inv {
				lower = i + 1
			}
			if start[i] <= q.ret {
				upper = i + 1
			}
		}
		switch {
		case q.value >= 1 && q.value <= nFrames && bad[q.value-1]:
			r.Violate("C16", "C16.whole-frame", "bad-frame", "request %d returned frame %d which was rejected", qi, q.value)
			return
		case q.value < lower:
			sigv := "stale"
			if q.value == 0 {
				sigv = "blank"
			}
			r.Violate("C16", "C16.whole-frame", sigv, "request %d (steps %d..%d) returned frame %d although frame %d had been processed completely when it was made", qi, q.inv, q.ret, q.value, lower)
			return
		case q.value > upper:
			r.Violate("C16", "C16.whole-frame", "future", "request %d returned frame %d, only %d had started", qi, q.value, upper)
			return
		}
		for i := 0; i < nFrames; i++ {
			if start[i] < q.ret && done[i] > q.inv {
				r.Probe("frame-request-served-mid-frame")
				break
			}
		}
	}
	// ---- C17 under concurrency: every non-overlapping request yields one 21-frame recording
	type trec struct {
		sStep, w21Step, xStep int
		ids                   []int
	}
	var recs []trec
	open := false
	for _, c := range test.calls {
		switch c.op {
		case 'S':
			if open {
				r.Violate("C17", "C17.test", "protocol:start-while-open", "test sink: start while open at step %d", c.step)
				return
			}
			open = true
			recs = append(recs, trec{sStep: c.step, w21Step: 1 << 30, xStep: 1 << 30})
		case 'W':
			if !open {
				r.Violate("C17", "C17.test", "protocol:write-while-closed", "test sink: write while closed at step %d", c.step)
				return
			}
			k := &recs[len(recs)-1]
			k.ids = append(k.ids, c.id)
			if len(k.ids) == 21 {
				k.w21Step = c.step
			}
		case 'X':
			if open {
				recs[len(recs)-1].xStep = c.step
				open = false
			}
		}
	}
	for k, rc := range recs {
		complete := rc.xStep < 1<<30
		if complete && len(rc.ids) != 21 {
			r.Violate("C17", "C17.test", map[bool]string{true: "long", false: "short"}[len(rc.ids) > 21], "test recording %d holds %d frames", k, len(rc.ids))
			return
		}
		if len(rc.ids) > 21 {
			r.Violate("C17", "C17.test", "long", "test recording %d holds %d frames", k, len(rc.ids))
			return
		}
		// consecutive accepted frames
		for i := 1; i < len(rc.ids); i++ {
			want := rc.ids[i-1] + 1
			for want <= nFrames && bad[want-1] {
				want++
			}
			if rc.ids[i] != want {
				r.Violate("C17", "C17.test", "content", "test recording %d: frame %d follows %d", k, rc.ids[i], rc.ids[i-1])
				return
			}
		}
	}
	// requests in order of invocation; a request is non-overlapping if, during [inv, ret], no test recording
	// is between its start and its 21st frame, and no earlier request is still waiting to be served
	var treqs []schedReq
	for _, q := range reqs {
		if q.kind == 't' {
			treqs = append(treqs, q)
		}
	}
	for i := 0; i < len(treqs); i++ {
		for j := i + 1; j < len(treqs); j++ {
			if treqs[j].inv < treqs[i].inv {
				treqs[i], treqs[j] = treqs[j], treqs[i]
			}
		}
	}
	nextRec := 0
	lastServedBy := -1
	for qi, q := range treqs {
		// the recording that serves q: the first one started after q was made
		k := nextRec
		for k < len(recs) && recs[k].sStep < q.inv {
			k++
		}
		overlapping := false
		for _, rc := range recs {
			if rc.sStep <= q.ret && rc.w21Step >= q.inv {
				overlapping = true // a test recording was (possibly) still taking frames
			}
		}
		if lastServedBy >= 0 && k == lastServedBy {
			overlapping = true // an earlier request is waiting for the same recording: merged
		}
		if overlapping {
			r.Probe("request-overlapping-a-test-recording")
			if k < len(recs) {
				lastServedBy = k
			}
			continue
		}
		if k >= len(recs) {
			// not served: acceptable only if no frame was processed after the request
			served := false
			for i := 0; i < nFrames; i++ {
				if !bad[i] && start[i] > q.ret {
					served = true
				}
			}
			if served {
				r.Violate("C17", "C17.test", "request-lost", "test-recording request %d made at steps %d..%d (no test recording in progress, none pending) produced no recording although frames were processed afterwards; test recordings: %d", qi, q.inv, q.ret, len(recs))
				return
			}
			continue
		}
		rc := recs[k]
		lastServedBy = k
		nextRec = k
		// first frame: the frame in progress when the request was made, or the next one
		lo, hi := 0, 0
		for i := 0; i < nFrames; i++ {
			if bad[i] {
				continue
			}
			if done[i] > q.inv && lo == 0 {
				lo = i + 1
			}
			if start[i] >= q.ret && hi == 0 {
				hi = i + 1
			}
		}
		if hi == 0 {
			hi = nFrames
		}
		if len(rc.ids) > 0 && (rc.ids[0] < lo || rc.ids[0] > hi) {
			r.Violate("C17", "C17.test", "start", "request %d (steps %d..%d): the test recording starts with frame %d, expected the next processed frame (%d..%d)", qi, q.inv, q.ret, rc.ids[0], lo, hi)
			return
		}
		if rc.xStep < 1<<30 {
			r.Probe("concurrent-request-served-with-21-frames")
		}
		if q.inv > 0 && k > 0 && recs[k-1].w21Step < q.inv && recs[k-1].xStep >= q.inv {
			r.Probe("request-while-previous-test-file-was-being-closed")
		}
	}
	r.Distinct("a.sched.interleaving", fmt.Sprintf("%016x", sig))
	if len(reqs) > 0 {
		r.Nontrivial(fmt.Sprintf("%016x:%d", sig, len(reqs)))
	}
}
