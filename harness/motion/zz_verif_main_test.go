//go:build verif

package motion

import (
	"testing"

	"verifsim"
)

var realA = []string{"motion.MotionProcessor", "motion.motionDetector", "motion.FrameLoop", "lepton3.ParseRawFrame/ParseTelemetry", "window.Window (Now injected)", "loglimiter", "recorder.RecorderConfig"}
var stubA = []string{"camera (simulated frame source, uptime clock, FFC, bad frames, resets)", "three recorder.Recorder sinks (fault-injecting, tracing)", "wall clock", "D-Bus test-recording request (sets StartSnapshot directly)"}

func TestVerif(t *testing.T) {
	theT = t
	verifsim.Main(t, unitsA()...)
}

func unitsA() []verifsim.Unit {
	return []verifsim.Unit{
		{
			Name: "A.sched", Props: []string{"C17", "C16"}, Run: runASched, MinimiseRuns: 80,
			Rule:    "one case = the real MotionProcessor driven by a frame-loop task under the seeded scheduler (yields at every statement of the instrumented motionprocessor.go/frameloop.go and between the pixel rows of the parser), 1-3 client tasks calling RequestSnapshotRecording / GetRecentFrame at tape-chosen instants of the step clock, uniform-valued frames, bad frames; the test sink records the scheduler step of every call (its stop yields, so requests can arrive while the file is being closed); non-trivial = at least one request; distinct = interleaving signature",
			Measure: "a.sched.interleaving = distinct context-switch sequences",
			Real:    []string{"motion.MotionProcessor (Process, processSnapshot, RequestSnapshotRecording, GetRecentFrame)", "motion.FrameLoop"}, Stub: []string{"frame parser (uniform frames, yields between rows)", "recorder sinks (step-stamped)", "goroutine scheduling (seeded scheduler in a synctest bubble)"},
			Assumptions: []string{"a request is counted as non-overlapping when no test recording is between its start and its 21st frame during the request and no earlier request is still pending"},
		},
		{
			Name: "A.logtext", Props: []string{"C20"}, Run: runALogText,
			Rule:    "one case = world-A history with the continuous recorder on and seeded failures of start/write/stop/disk-check/create on all three sinks; the injected error text looks like a format string (contains %20, 100%, %d); the daemon's log is captured and every line that carries the error text must carry it verbatim; non-trivial = at least two such lines",
			Measure: "-",
			Real:    realA, Stub: stubA,
		},
		{
			Name: "AB.thr", Props: []string{"C05", "C06", "C04", "C17", "C15", "C11", "C12"}, Run: runAB,
			Rule:    "one case = world-A history with long stretches of continuous motion, seeded throttle configuration (bucket 1-30 s, refill 1-90 s, minimum clip = min-secs+preview-secs as main.go wires it); real MotionProcessor -> real ThrottledRecorder (bucket on the simulated clock) -> tracing sink; executed with and without the throttle; non-trivial = frames reached storage and (a throttle cut or >= 2 files); distinct = throttle configuration + files/cuts + event string",
			Measure: "ab = (capacity, minimum clip, cuts, files)",
			Real:    append([]string{"throttle.ThrottledRecorder", "juju/ratelimit.Bucket"}, realA...), Stub: stubA,
			Assumptions: []string{"one clock serves as wall clock and token-bucket clock; it only moves forward in this unit", "file creation always succeeds here (disk-space refusals are injected)"},
		},
		{
			Name: "A.ring", Props: []string{"C19"}, Run: runARing,
			Rule:    "one case = capacity 1-12 + seeded sequence (<= 6*capacity+4) over {write tag, write+Move, SetAsOldest, Reset}; GetHistory/Oldest/CopyRecent/Current are compared with R-ring after every step; non-trivial = at least three operations; distinct = capacity + operation string",
			Measure: "c19.state = abstract ring states (capacity, position mod capacity, wrapped, mark offset) reached",
			Real:    []string{"motion.FrameLoop (exported API)"}, Stub: []string{"frames are 2x2 dummies tagged through Status.FrameCount"},
			Assumptions: []string{"no schedule/clock/fault dimension: seeded operation histories + reference model (concurrent CopyRecent is C16)", "queries on a current slot that was not written since the reset are compared by length only"},
		},
		{
			Name: "A.det", Props: []string{"C07", "C14"}, Run: runADet,
			Rule:    "one case = seeded detector configuration (warmer/abs x one/two-diff, gap 1-5, edge 0-3, count 1-12, delta incl. 0 and 1, temp-thresh anywhere) + FFC-free frame stream whose frames are derived from the comparison frame with differences of delta-1/delta/delta+1 on count-1/count/count+1 pixels, values T-1/T/T+1, full-range redraws, border noise incl. zeros, camera resets; every frame is compared with the reference detector R-det; non-trivial = some but not all frames are motion; distinct = configuration + motion string",
			Measure: "c07.cfg = (warmer, one-diff, gap, edge, delta, count)",
			Real:    realA, Stub: stubA,
			Assumptions: []string{"no schedule/clock/fault dimension: history generator + reference model only (DESIGN §5 C07)"},
		},
		{
			Name: "A.pair", Props: []string{"C08"}, Run: runAPair,
			Rule:    "one case = one seeded stream + a twin that differs only in border pixels (any values incl. 0; fixed or dynamic threshold, with FFC and resets) or only in interior pixels moved between two values <= temp-thresh (fixed threshold); both run through two real processors and compared frame by frame (detection, threshold, background interior, sink calls, start arguments); non-trivial = at least one pixel differs and at least one frame is motion; distinct = mode + configuration + motion string",
			Measure: "c08 = (mode, edge, dynamic, delta)",
			Real:    realA, Stub: stubA,
			Assumptions: []string{"no schedule/clock/fault dimension: relational check over seeded paired histories"},
		},
		{
			Name: "A.ffc", Props: []string{"C09"}, Run: runAFFC,
			Rule:    "one case = seeded stream with FFC events (camera uptime clock drives TimeOn/LastFFCTime; fps 1-60 so a period is 10-600 frames; uptime jumps give 1-2 frame periods; FFCs in the first frames, back to back, overlapping resets); rule 1 on every frame; rule 2 on a twin history whose frames before one FFC period (or before one reset, fixed threshold) are redrawn; non-trivial = at least one FFC period; distinct = configuration + motion string + cut",
			Measure: "c09 = (fps, dynamic, cut kind, periods)",
			Real:    realA, Stub: stubA,
		},
		{
			Name: "A.dyn", Props: []string{"C15"}, Run: runADyn,
			Rule:    "one case = seeded stream with dynamic threshold, each of temp-thresh-min/max unset or set around the scene level, FFCs and resets; invariants evaluated in-package after every frame; non-trivial = the threshold was recomputed at least once; distinct = configuration + motion string",
			Measure: "c15 = (min set, max set, edge, preview frames)",
			Real:    realA, Stub: stubA,
			Assumptions: []string{"no schedule dimension: seeded histories + invariants; detector internals (background, tempThresh) are read in-package"},
		},
		{
			Name: "A.cont", Props: []string{"C17"}, Run: runACont,
			Rule:    "one case = seeded configuration + history of valid frames with arbitrary motion, camera resets, closed windows, refused starts and non-overlapping test-recording requests, continuous recorder on; executed four times (as is / without requests / without continuous recorder / window always open) and compared; non-trivial = at least two continuous files; distinct = (max frames, number of files per sink, request positions)",
			Measure: "c17 = (max-secs, fps, continuous files, test recordings, window configured)",
			Real:    realA, Stub: stubA,
			Assumptions: []string{"test-recording requests are at least 24 frames apart (C17's quantifier: non-overlapping)", "throttling is exercised in unit AB (composition with the real ThrottledRecorder)"},
		},
		{
			Name: "A.bad", Props: []string{"C13"}, Run: runABad,
			Rule:    "one case = seeded configuration + history with bad frames (zero pixel at interior corners, last interior row/column, deep interior; plus zero border pixels that must be accepted) before/on/after triggers and during recordings; raw Lepton frames built byte-wise with pseudo-random telemetry words; up to three bad frames per case are additionally deleted and the run repeated (differential); non-trivial = at least one bad frame; distinct = (edge, resolution, number of bad frames, recordings, event string)",
			Measure: "c13.badpos = (edge, resolution)",
			Real:    realA, Stub: stubA,
			Assumptions: []string{"Lepton format here; the Boson converter is exercised in world C"},
		},
		{
			Name: "A.fault", Props: []string{"C12"}, Run: runAFault, MinimiseRuns: 120,
			Rule:    "one case = seeded event sequence over {motion frame, still frame, bad frame, reset, test-recording request (overlapping allowed)} of 8-60 events with the continuous recorder on or off, followed by a fault-free liveness suffix (quiet, burst, quiet); executed fault-free, then once per single placement of an error on every sink call made during the sequence (CheckCanRecord/Start/Write/Stop x three sinks: enumerated completely), then six seeded multi-fault plans; non-trivial = at least one placement; distinct = event string + configuration",
			Measure: "c12.ops = number of start/write/stop calls per sink in the fault-free run",
			Real:    realA, Stub: stubA,
			Assumptions: []string{"faults are injected at the recorder.Recorder seam (errors returned by sink calls), not inside the file system"},
		},
		{
			Name: "A.rec", Props: []string{"C01", "C02", "C03", "C04"}, Run: runARec,
			Rule:    "one case = one seeded configuration (fps, preview, min/max, trigger frames, resolution, edge, detector mode, window) + one seeded event history (motion segments, bad frames, clears, refused starts by window/disk/create, wall-clock steps and jumps) executed on the real MotionProcessor; non-trivial = at least two motion recordings were made; distinct = distinct (configuration, start ordinal + length of every recording) signatures",
			Measure: "c01.tile = (cap, distance from previous stop) of re-triggers within reach; c02.phase = (cap, ring phase, preview length); c03.end = (limit kind, length, last motion, min, max); c04.gate = (trigger frames, window, boundary instant, disk, create) at candidate start frames",
			Real:    realA, Stub: stubA,
			Assumptions: []string{"frames are FFC-free in this unit (C09 covers FFC)", "window times are absolute HH:MM in UTC (relative sunrise/sunset windows are not generated)"},
		},
	}
}
