//go:build verif

package motion

import (
	"testing"

	"verifsim"
)

var realA = []string{"motion.MotionProcessor", "motion.motionDetector", "motion.FrameLoop", "lepton3.ParseRawFrame/ParseTelemetry", "window.Window (Now injected)", "loglimiter", "recorder.RecorderConfig"}
var stubA = []string{"camera (simulated frame source, uptime clock, FFC, bad frames, resets)", "three recorder.Recorder sinks (fault-injecting, tracing)", "wall clock", "D-Bus test-recording request (sets StartSnapshot directly)"}

func TestVerif(t *testing.T) {
	verifsim.Main(t, unitsA()...)
}

func unitsA() []verifsim.Unit {
	return []verifsim.Unit{
		{
			Name: "A.rec", Props: []string{"C01", "C02", "C03", "C04"}, Run: runARec,
			Rule:    "one case = one seeded configuration (fps, preview, min/max, trigger frames, resolution, edge, detector mode, window) + one seeded event history (motion segments, bad frames, clears, refused starts by window/disk/create, wall-clock steps and jumps) executed on the real MotionProcessor; non-trivial = at least two motion recordings were made; distinct = distinct (configuration, start ordinal + length of every recording) signatures",
			Measure: "c01.tile = (cap, distance from previous stop) of re-triggers within reach; c02.phase = (cap, ring phase, preview length); c03.end = (limit kind, length, last motion, min, max); c04.gate = (trigger frames, window, boundary instant, disk, create) at candidate start frames",
			Real:    realA, Stub: stubA,
			Assumptions: []string{"frames are FFC-free in this unit (C09 covers FFC)", "window times are absolute HH:MM in UTC (relative sunrise/sunset windows are not generated)"},
		},
	}
}
