//go:build verif

package motion

import (
	"testing"

	"verifsim"
)

var realA = []string{"motion.MotionProcessor", "motion.motionDetector", "motion.FrameLoop", "lepton3.ParseRawFrame/ParseTelemetry", "window.Window (Now injected)", "loglimiter", "recorder.RecorderConfig"}
var stubA = []string{"camera (simulated frame source, uptime clock, FFC, bad frames, resets)", "three recorder.Recorder sinks (fault-injecting, tracing)", "wall clock", "D-Bus test-recording request (sets StartSnapshot directly)"}

func TestVerif(t *testing.T) {
	verifsim.Main(t, unitsA()...)
}

func unitsA() []verifsim.Unit {
	return []verifsim.Unit{
		{
			Name: "A.cont", Props: []string{"C17"}, Run: runACont,
			Rule:    "one case = seeded configuration + history of valid frames with arbitrary motion, camera resets, closed windows, refused starts and non-overlapping test-recording requests, continuous recorder on; executed four times (as is / without requests / without continuous recorder / window always open) and compared; non-trivial = at least two continuous files; distinct = (max frames, number of files per sink, request positions)",
			Measure: "c17 = (max-secs, fps, continuous files, test recordings, window configured)",
			Real:    realA, Stub: stubA,
			Assumptions: []string{"test-recording requests are at least 24 frames apart (C17's quantifier: non-overlapping)", "throttling is exercised in unit AB (composition with the real ThrottledRecorder)"},
		},
		{
			Name: "A.bad", Props: []string{"C13"}, Run: runABad,
			Rule:    "one case = seeded configuration + history with bad frames (zero pixel at interior corners, last interior row/column, deep interior; plus zero border pixels that must be accepted) before/on/after triggers and during recordings; raw Lepton frames built byte-wise with pseudo-random telemetry words; up to three bad frames per case are additionally deleted and the run repeated (differential); non-trivial = at least one bad frame; distinct = (edge, resolution, number of bad frames, recordings, event string)",
			Measure: "c13.badpos = (edge, resolution)",
			Real:    realA, Stub: stubA,
			Assumptions: []string{"Lepton format here; the Boson converter is exercised in world C"},
		},
		{
			Name: "A.fault", Props: []string{"C12"}, Run: runAFault, MinimiseRuns: 120,
			Rule:    "one case = seeded event sequence over {motion frame, still frame, bad frame, reset, test-recording request (overlapping allowed)} of 8-60 events with the continuous recorder on or off, followed by a fault-free liveness suffix (quiet, burst, quiet); executed fault-free, then once per single placement of an error on every sink call made during the sequence (CheckCanRecord/Start/Write/Stop x three sinks: enumerated completely), then six seeded multi-fault plans; non-trivial = at least one placement; distinct = event string + configuration",
			Measure: "c12.ops = number of start/write/stop calls per sink in the fault-free run",
			Real:    realA, Stub: stubA,
			Assumptions: []string{"faults are injected at the recorder.Recorder seam (errors returned by sink calls), not inside the file system"},
		},
		{
			Name: "A.rec", Props: []string{"C01", "C02", "C03", "C04"}, Run: runARec,
			Rule:    "one case = one seeded configuration (fps, preview, min/max, trigger frames, resolution, edge, detector mode, window) + one seeded event history (motion segments, bad frames, clears, refused starts by window/disk/create, wall-clock steps and jumps) executed on the real MotionProcessor; non-trivial = at least two motion recordings were made; distinct = distinct (configuration, start ordinal + length of every recording) signatures",
			Measure: "c01.tile = (cap, distance from previous stop) of re-triggers within reach; c02.phase = (cap, ring phase, preview length); c03.end = (limit kind, length, last motion, min, max); c04.gate = (trigger frames, window, boundary instant, disk, create) at candidate start frames",
			Real:    realA, Stub: stubA,
			Assumptions: []string{"frames are FFC-free in this unit (C09 covers FFC)", "window times are absolute HH:MM in UTC (relative sunrise/sunset windows are not generated)"},
		},
	}
}
