//go:build verif

package motion

// Detector-focused units of world A: C07 (reference model), C08 (paired streams),
// C09 (FFC suppression + paired histories), C15 (dynamic threshold invariants).
// These properties have no schedule dimension; the simulator contributes the seeded
// history generator (frames, camera uptime clock, FFC events, camera resets).

import (
	"fmt"
	"time"

	config "github.com/TheCacophonyProject/go-config"
	zz "github.com/TheCacophonyProject/thermal-recorder/zzverif"

	"verifsim"
)

type detGen struct {
	r     *verifsim.Run
	c     *aCfg
	hist  [][][]uint16 // accepted frames since start-up / last clear
	style int          // 0 boundary-focused, 1 full range, 2 scene with warm blobs, 3 large sensor, 4 cold scene with a visiting warm blob
	// style 4
	blobOn       bool
	blobX, blobY int
	blobN        int
	coldV, blobV uint16
}

func clampPix(v int) uint16 {
	if v < 1 {
		return 1
	}
	if v > 65535 {
		return 65535
	}
	return uint16(v)
}

// near returns a value concentrated on the detector's boundaries around base.
func (g *detGen) near(base int) int {
	d := int(g.c.Motion.DeltaThresh)
	switch g.r.Draw(8) {
	case 0:
		return base + d - 1
	case 1:
		return base + d
	case 2:
		return base + d + 1
	case 3:
		return base - d - 1
	case 4:
		return base - d
	case 5:
		return base + d + g.r.Range(2, 400)
	case 6:
		return base - d - g.r.Range(2, 400)
	}
	return base + g.r.Range(-3, 3)
}

func (g *detGen) aroundT() int {
	T := int(g.c.Motion.TempThresh)
	switch g.r.Draw(6) {
	case 0:
		return T - 1
	case 1:
		return T
	case 2:
		return T + 1
	case 3:
		return T - g.r.Range(2, 500)
	}
	return T + g.r.Range(2, 500)
}

func (g *detGen) first() [][]uint16 {
	c := g.c
	if g.style == 3 {
		// large-sensor stratum: a uniform scene (no per-pixel draws) at a level drawn over the whole 16-bit range
		return zz.NewPix(c.W, c.H, clampPix(g.r.OneOf(g.r.Range(1, 65535), g.r.Range(50000, 65535), g.r.Range(12000, 35000))))
	}
	if g.style == 4 {
		// everything at or below the threshold; a warm blob visits one fixed place and leaves again for
		// stretches longer than the compare gap
		T := int(c.Motion.TempThresh)
		g.coldV = clampPix(T - g.r.OneOf(0, 1, g.r.Range(0, 300)))
		g.blobV = clampPix(T + int(c.Motion.DeltaThresh) + g.r.Range(1, 400))
		g.blobN = c.Motion.CountThresh + g.r.Draw(3)
		g.blobX, g.blobY = c.Edge+g.r.Draw(max2i(c.W-2*c.Edge, 1)), c.Edge+g.r.Draw(max2i(c.H-2*c.Edge, 1))
		g.blobOn = false
		return zz.NewPix(c.W, c.H, g.coldV)
	}
	p := zz.NewPix(c.W, c.H, 0)
	base := g.aroundT()
	for y := range p {
		for x := range p[y] {
			switch g.style {
			case 1:
				p[y][x] = clampPix(g.r.Range(1, 65535))
			default:
				v := base
				if g.r.Chance(1, 4) {
					v = g.aroundT()
				}
				p[y][x] = clampPix(v)
			}
		}
	}
	return p
}

// next derives a frame from the previous one, aiming changes at the comparison
// frame (gap frames earlier, or the earliest since the last reset).
func (g *detGen) next() [][]uint16 {
	c := g.c
	if len(g.hist) == 0 {
		p := g.first()
		g.hist = append(g.hist, p)
		return p
	}
	if g.style == 4 {
		if g.r.Chance(1, 5) {
			g.blobOn = !g.blobOn
		}
		p := zz.NewPix(c.W, c.H, g.coldV)
		if g.blobOn {
			n := 0
			for y := g.blobY; y < c.H-c.Edge && n < g.blobN; y++ {
				for x := g.blobX; x < c.W-c.Edge && n < g.blobN; x++ {
					p[y][x] = g.blobV
					n++
				}
			}
		}
		g.hist = append(g.hist, p)
		if len(g.hist) > 8 {
			g.hist = g.hist[len(g.hist)-8:]
		}
		return p
	}
	prev := g.hist[len(g.hist)-1]
	refI := len(g.hist) - c.Motion.FrameCompareGap
	if refI < 0 {
		refI = 0
	}
	ref := g.hist[refI]
	p := zz.ClonePix(prev)
	T := int(c.Motion.TempThresh)
	switch g.r.Pick(4, 6, 1, 1, 1) {
	case 0: // unchanged
	case 1: // k pixels moved relative to the reference frame
		k := g.r.OneOf(c.Motion.CountThresh-1, c.Motion.CountThresh, c.Motion.CountThresh+1, g.r.Range(1, 6))
		x0, y0 := g.r.Draw(c.W), g.r.Draw(c.H)
		for i := 0; i < k; i++ {
			var x, y int
			if g.r.Chance(2, 3) { // contiguous run starting anywhere (may touch/cross the border)
				x, y = (x0+i)%c.W, (y0+(x0+i)/c.W)%c.H
			} else {
				x, y = g.r.Draw(c.W), g.r.Draw(c.H)
			}
			b := int(ref[y][x])
			if b < T {
				b = T // differences are taken after raising to temp-thresh
			}
			p[y][x] = clampPix(g.near(b))
		}
	case 2: // back to the reference
		p = zz.ClonePix(ref)
	case 3: // full redraw
		p = g.first()
	case 4: // sub-threshold churn and values exactly at the threshold
		for i, n := 0, g.r.Range(1, 6); i < n; i++ {
			p[g.r.Draw(c.H)][g.r.Draw(c.W)] = clampPix(g.aroundT())
		}
	}
	if c.Edge > 0 && g.r.Chance(1, 3) { // border noise incl. zeros
		for i, n := 0, g.r.Range(1, 4); i < n; i++ {
			x, y := borderPos(g.r, c)
			p[y][x] = uint16(g.r.OneOf(0, 1, 65535, g.r.Draw(65536)))
		}
	}
	g.hist = append(g.hist, p)
	if len(g.hist) > 8 {
		g.hist = g.hist[len(g.hist)-8:]
	}
	return p
}

func borderPos(r *verifsim.Run, c *aCfg) (int, int) {
	for {
		x, y := r.Draw(c.W), r.Draw(c.H)
		if x < c.Edge || y < c.Edge || x >= c.W-c.Edge || y >= c.H-c.Edge {
			return x, y
		}
	}
}

// genDetScenario: configuration + explicit frame contents. ffc: generate FFC events.
func genDetScenario(r *verifsim.Run, focus string) *aScenario {
	sc := &aScenario{Focus: focus}
	sc.ColdStart = focus == "C09" && r.Chance(1, 4)
	c := &sc.Cfg
	c.W = r.OneOf(4, 5, 6, 8, r.Range(4, 16))
	c.H = r.OneOf(4, 5, 6, r.Range(4, 12))
	c.Edge = r.Draw(4)
	for 2*c.Edge >= c.W || 2*c.Edge >= c.H {
		c.Edge--
	}
	c.Fps = r.OneOf(1, 2, 3, 5, 9)
	if focus == "C09" {
		c.Fps = r.OneOf(1, 2, 3, 9, 30, 60)
	}
	interior := (c.W - 2*c.Edge) * (c.H - 2*c.Edge)
	cnt := r.Range(1, 12)
	if cnt > interior {
		cnt = interior
	}
	c.Motion = config.ThermalMotion{
		TempThresh:      uint16(r.OneOf(1000, 2900, 3000, 28000, r.Range(2, 65000))),
		DeltaThresh:     uint16(r.OneOf(0, 1, 2, 5, 10, 50, r.Range(0, 300))),
		CountThresh:     cnt,
		FrameCompareGap: r.Range(1, 5),
		UseOneDiffOnly:  r.Chance(1, 2),
		WarmerOnly:      r.Chance(1, 2),
		EdgePixels:      c.Edge,
	}
	c.Motion.Verbose = r.Chance(1, 6) // the debug tracker must never change what is detected
	c.Preview = r.Draw(3)
	c.Trig = r.Draw(4)
	if c.Preview*c.Fps+c.Trig == 0 {
		c.Trig = 1
	}
	c.Motion.TriggerFrames = c.Trig
	c.MinS = r.Draw(3)
	c.MaxS = c.MinS + r.Draw(3)
	c.NoWindow = true
	c.Base = c.Motion.TempThresh
	sc.Start = time.Date(2021, 3, 14, 12, 0, 0, 0, time.UTC)
	switch focus {
	case "C15":
		c.Motion.DynamicThreshold = true
	case "C08", "C09":
		c.Motion.DynamicThreshold = r.Chance(1, 2)
	}
	if (focus == "C07" || focus == "C08") && !c.Motion.DynamicThreshold && r.Chance(1, 10) {
		// the configured border covers the whole frame (at least in one dimension): every pixel is a border
		// pixel, nothing is left to compare (fixed threshold only: with a dynamic one the background
		// estimate of such a geometry indexes outside the frame - an observation outside every quantifier)
		m := c.W
		if c.H < m {
			m = c.H
		}
		c.Edge = (m+1)/2 + r.Draw(2)
		c.Motion.EdgePixels = c.Edge
		sc.AllBorder = true
	}
	if !c.Motion.DynamicThreshold && r.Chance(1, 3) {
		// the dynamic-threshold bounds are configured although the threshold is fixed: they must not matter
		T := int(c.Motion.TempThresh)
		c.Motion.TempThreshMin = clampPix(T + r.Range(-400, 400))
		c.Motion.TempThreshMax = clampPix(int(c.Motion.TempThreshMin) + r.Range(0, 400))
		if r.Chance(1, 2) {
			c.Motion.TempThreshMin = 0
		}
	}
	if c.Motion.DynamicThreshold {
		T := int(c.Motion.TempThresh)
		switch r.Draw(4) { // each bound unset (0) or set
		case 1:
			c.Motion.TempThreshMin = clampPix(T + r.Range(-300, 300))
		case 2:
			c.Motion.TempThreshMax = clampPix(T + r.Range(-300, 300))
		case 3:
			lo := T + r.Range(-300, 300)
			c.Motion.TempThreshMin = clampPix(lo)
			c.Motion.TempThreshMax = clampPix(lo + r.OneOf(0, r.Range(0, 400), r.Range(0, 400))) // min == max pins the threshold
		}
	}
	g := &detGen{r: r, c: c, style: r.Pick(5, 1, 0)}
	if (focus == "C07" || focus == "C08") && r.Chance(1, 8) {
		g.style = 4
	}
	n := r.Range(10, 120)
	if (focus == "C07" || focus == "C09") && r.Chance(1, 4) {
		// a recording window with an edge inside the run: what the detector sees and keeps does not
		// depend on the time of day
		c.NoWindow = false
		c.WinStart = r.Draw(24 * 60)
		c.WinStop = (c.WinStart + 1 + r.Draw(3)) % (24 * 60)
		if r.Chance(1, 2) {
			c.WinStart, c.WinStop = c.WinStop, c.WinStart // closed for a minute or so: the run can see it close and re-open
		}
		b := c.WinStart
		if r.Chance(1, 2) {
			b = c.WinStop
		}
		lead := r.Draw(n)
		if c.WinStart == (c.WinStop+1)%(24*60) && r.Chance(2, 3) {
			// closed for exactly one minute, slow camera, long run: closing, an FFC period while closed and
			// the re-opening all fit
			c.Fps = r.OneOf(1, 2)
			n = r.Range(90, 170) * c.Fps
			b = c.WinStop
			lead = r.Range(2, 20) * c.Fps
		}
		day := time.Date(2021, 3, 14, 0, 0, 0, 0, simZone)
		sc.Start = day.Add(time.Duration(b)*time.Minute - time.Duration(lead)*time.Second/time.Duration(c.Fps))
	}
	if focus == "C15" && r.Chance(1, 40) {
		// realistic and large sensors (Lepton 160x120, Boson 320x256 / 640x512): sums over the whole
		// interior must not overflow; few frames, because a frame costs milliseconds here
		dims := [][2]int{{160, 120}, {320, 256}, {640, 512}}[r.Draw(3)]
		c.W, c.H = dims[0], dims[1]
		g.style = 3
		n = r.Range(3, 8)
		c.Motion.TempThreshMin, c.Motion.TempThreshMax = 0, 0
		switch r.Draw(3) {
		case 1:
			c.Motion.TempThreshMax = uint16(r.Range(20000, 65000))
		case 2:
			c.Motion.TempThreshMin = uint16(r.Range(1000, 40000))
			c.Motion.TempThreshMax = uint16(r.Range(40000, 65000))
		}
		c.Preview = 0
		c.Fps = 9
		if c.Trig == 0 {
			c.Trig = 1
			c.Motion.TriggerFrames = 1
		}
	}
	pClear := 0
	if r.Chance(1, 2) {
		pClear = r.OneOf(10, 40)
	}
	pFFC := 0
	if focus == "C09" || focus == "C15" || focus == "C08" {
		pFFC = r.OneOf(0, 10, 30)
		if focus == "C09" {
			pFFC = r.OneOf(10, 30, 60)
		}
	}
	if (focus == "C07" || focus == "C09" || focus == "C15") && r.Chance(1, 4) {
		// storage failures must not change what the detector does (e.g. a failed stop at a camera reset)
		for i, k := 0, r.Range(1, 4); i < k; i++ {
			sc.Plans[zz.SinkMotion].Add('X', r.Draw(6))
		}
		if r.Chance(1, 2) {
			sc.Plans[zz.SinkMotion].Add('W', r.Draw(60))
		}
	}
	for len(sc.Ev) < n {
		if pClear > 0 && r.Chance(pClear, 1000) {
			sc.Ev = append(sc.Ev, aEvent{Kind: 'C', DiskOK: true, CreateOK: true})
			g.hist = nil
		}
		e := aEvent{Kind: 'F', Dt: time.Second / time.Duration(c.Fps), DiskOK: true, CreateOK: true}
		e.Pix = g.next()
		if pFFC > 0 && (r.Chance(pFFC, 1000) || len(sc.Ev) < 3 && r.Chance(1, 6)) {
			e.FFC = true
		}
		if focus == "C09" && r.Chance(1, 40) {
			e.UpJumpMs = uint32(r.OneOf(9000, 9999, 10000, 10001, 20000)) // uptime jump: degenerate 1-2 frame periods
		}
		sc.Ev = append(sc.Ev, e)
	}
	return sc
}

func describeDet(r *verifsim.Run, sc *aScenario) {
	c := &sc.Cfg
	m := c.Motion
	r.Set("cfg", fmt.Sprintf("%dx%d@%dfps edge%d T%d[min%d max%d dyn=%v] delta%d count%d gap%d warmer=%v onediff=%v preview%ds trig%d min%ds max%ds",
		c.W, c.H, c.Fps, c.Edge, m.TempThresh, m.TempThreshMin, m.TempThreshMax, m.DynamicThreshold, m.DeltaThresh, m.CountThresh, m.FrameCompareGap, m.WarmerOnly, m.UseOneDiffOnly, c.Preview, c.Trig, c.MinS, c.MaxS))
	b := make([]byte, 0, len(sc.Ev))
	for i := range sc.Ev {
		ch := sc.Ev[i].Kind
		if sc.Ev[i].FFC {
			ch = 'f'
		}
		b = append(b, ch)
	}
	r.Set("events", string(b))
	if sc.AllBorder {
		r.Probe("edge-border-covers-the-whole-frame")
	}
}

// ---- unit A.det : C07 -----------------------------------------------------------------

func runADet(r *verifsim.Run) {
	sc := genDetScenario(r, "C07")
	describeDet(r, sc)
	c := &sc.Cfg
	w, tr := runScenario(sc, aOpts{SkipEv: -1})
	r.Count("frames", w.nextID)
	m := c.Motion
	model := &zz.DetModel{W: c.W, H: c.H, Edge: c.Edge, T: int(m.TempThresh), Delta: int(m.DeltaThresh), Count: m.CountThresh,
		Gap: m.FrameCompareGap, Warmer: m.WarmerOnly, OneDiff: m.UseOneDiffOnly}
	nMotion, sinceReset := 0, 0
	afterReset := false
	for i := range tr.Ev {
		e := &tr.Ev[i]
		if e.Panic != "" {
			r.Violate("C12", "C12.panic", "process", "panic in event %d: %s", i, e.Panic)
			return
		}
		switch e.Kind {
		case 'C':
			model.Reset()
			sinceReset = 0
			afterReset = true
			r.Probe("camera-reset")
		case 'F':
			if e.Ord < 0 {
				r.Violate("C13", "C13.classify", "rejected-good", "frame id %d rejected", e.ID)
				return
			}
			want, n := model.Frame(w.sent[e.ID])
			sinceReset++
			if want != e.Motion {
				sig := "missed"
				if e.Motion {
					sig = "spurious"
				}
				where := "steady"
				if sinceReset <= m.FrameCompareGap {
					where = "ring-filling"
				}
				if sinceReset == 1 {
					where = "first-frame"
				}
				if afterReset && where != "steady" {
					r.Violate("C14", "C14.restart-detection", sig, "frame id %d, %d frames after a camera reset ('clear'): detection %v, but detection restarted from the frames since the reset gives %v (frames are still compared with frames from before the reset)", e.ID, sinceReset, e.Motion, want)
				}
				r.Violate("C07", "C07.detect", sig+":"+where, "frame id %d (%d since start/reset): detector reported motion=%v, the threshold specification gives %v (%d counted pixels, count-thresh %d, delta %d, temp-thresh %d, gap %d, warmer=%v, one-diff=%v, edge %d)",
					e.ID, sinceReset, e.Motion, want, n, m.CountThresh, m.DeltaThresh, m.TempThresh, m.FrameCompareGap, m.WarmerOnly, m.UseOneDiffOnly, c.Edge)
				return
			}
			if want {
				nMotion++
			}
			switch n {
			case m.CountThresh:
				r.Probe("count-exactly-at-threshold")
			case m.CountThresh - 1:
				r.Probe("count-one-below-threshold")
			}
		}
	}
	if nMotion > 0 && nMotion < w.nextID {
		r.Nontrivial(fmt.Sprintf("%v:%v", sc.Cfg, motionString(tr)))
	}
	r.Distinct("c07.cfg", fmt.Sprintf("warm%v:one%v:gap%d:edge%d:delta%d:count%d", m.WarmerOnly, m.UseOneDiffOnly, m.FrameCompareGap, c.Edge, m.DeltaThresh, m.CountThresh))
}

func motionString(tr *zz.Trace) string {
	b := make([]byte, 0, len(tr.Ev))
	for i := range tr.Ev {
		switch {
		case tr.Ev[i].Kind != 'F':
			b = append(b, tr.Ev[i].Kind)
		case tr.Ev[i].Motion:
			b = append(b, 'm')
		default:
			b = append(b, '.')
		}
	}
	return string(b)
}

// ---- unit A.pair : C08 ----------------------------------------------------------------

func runAPair(r *verifsim.Run) {
	sc := genDetScenario(r, "C08")
	c := &sc.Cfg
	mode := "border"
	if !c.Motion.DynamicThreshold && r.Chance(1, 2) {
		mode = "subthreshold"
	}
	if c.Edge == 0 {
		mode = "subthreshold"
		c.Motion.DynamicThreshold = false
		c.Motion.TempThreshMin, c.Motion.TempThreshMax = 0, 0
		for i := range sc.Ev {
			sc.Ev[i].FFC = false
		}
	}
	describeDet(r, sc)
	r.Set("mode", mode)
	T := int(c.Motion.TempThresh)
	sc2 := *sc
	sc2.Ev = append([]aEvent(nil), sc.Ev...)
	changed := 0
	for i := range sc2.Ev {
		e := &sc2.Ev[i]
		if e.Kind != 'F' {
			continue
		}
		p := zz.ClonePix(e.Pix)
		for y := range p {
			for x := range p[y] {
				border := x < c.Edge || y < c.Edge || x >= c.W-c.Edge || y >= c.H-c.Edge
				switch mode {
				case "border":
					if border && r.Chance(1, 2) {
						p[y][x] = uint16(r.OneOf(0, 1, 65535, r.Draw(65536), T, T+int(c.Motion.DeltaThresh)+1))
						changed++
					}
				case "subthreshold":
					if !border && int(p[y][x]) <= T && r.Chance(1, 2) {
						v := r.OneOf(1, T, T-1, r.Range(1, max2i(T, 1)))
						if v < 1 {
							v = 1
						}
						if v > T {
							v = T
						}
						p[y][x] = uint16(v)
						changed++
					}
				}
			}
		}
		e.Pix = p
	}
	type snap struct {
		thresh uint16
		bgInt  uint64
	}
	var s1, s2 []snap
	after := func(dst *[]snap) func(int, *aWorld) {
		return func(i int, w *aWorld) {
			d := w.mp.motionDetector
			*dst = append(*dst, snap{d.tempThresh, zz.SumInterior(d.background.Pix, c.Edge)})
		}
	}
	w1, t1 := runScenario(sc, aOpts{SkipEv: -1, After: after(&s1)})
	_, t2 := runScenario(&sc2, aOpts{SkipEv: -1, After: after(&s2)})
	r.Count("frames", 2*w1.nextID)
	r.Count("pixels_changed", changed)
	for i := range t1.Ev {
		if t1.Ev[i].ErrKind != t2.Ev[i].ErrKind {
			r.Violate("C13", "C13.classify", "pair", "event %d classified differently in paired streams differing in %s pixels", i, mode)
			return
		}
		if t1.Ev[i].Motion != t2.Ev[i].Motion {
			r.Violate("C08", "C08.detection", mode, "frame id %d: detection differs (%v vs %v) between two streams that differ only in %s pixels (edge %d, temp-thresh %d, delta %d)", t1.Ev[i].ID, t1.Ev[i].Motion, t2.Ev[i].Motion, mode, c.Edge, T, c.Motion.DeltaThresh)
			return
		}
		if s1[i].thresh != s2[i].thresh {
			r.Violate("C08", "C08.threshold", mode, "after frame id %d the dynamic threshold differs (%d vs %d) between streams that differ only in %s pixels", t1.Ev[i].ID, s1[i].thresh, s2[i].thresh, mode)
			return
		}
		if mode == "border" && s1[i].bgInt != s2[i].bgInt {
			r.Violate("C08", "C08.background", mode, "after frame id %d the interior of the background estimate differs between streams that differ only in border pixels", t1.Ev[i].ID)
			return
		}
	}
	for s := 0; s < 3; s++ {
		if d := zz.SameSink(t1, t2, s); d != "" {
			r.Violate("C08", "C08.boundaries", mode, "%s sink differs between streams that differ only in %s pixels: %s", zz.SinkName[s], mode, d)
			return
		}
	}
	// background/threshold handed to storage at each start (interior only)
	r1, _ := t1.Protocol(zz.SinkMotion)
	r2, _ := t2.Protocol(zz.SinkMotion)
	for k := range r1 {
		if k < len(r2) && (r1[k].Thresh != r2[k].Thresh || mode == "border" && r1[k].Bg != nil && zz.SumInterior(r1[k].Bg, c.Edge) != zz.SumInterior(r2[k].Bg, c.Edge)) {
			r.Violate("C08", "C08.boundaries", mode+":start-args", "recording %d was started with different threshold/background interior in the paired streams", k)
			return
		}
	}
	nm := 0
	for i := range t1.Ev {
		if t1.Ev[i].Motion {
			nm++
		}
	}
	if changed > 0 && nm > 0 {
		r.Nontrivial(fmt.Sprintf("%s:%v:%s", mode, sc.Cfg, motionString(t1)))
	}
	r.Probe("pair-" + mode)
	if c.Motion.DynamicThreshold {
		r.Probe("pair-dynamic-threshold")
	}
	r.Distinct("c08", fmt.Sprintf("%s:edge%d:dyn%v:delta%d", mode, c.Edge, c.Motion.DynamicThreshold, c.Motion.DeltaThresh))
}

func max2i(a, b int) int {
	if a > b {
		return a
	}
	return b
}

// ---- unit A.ffc : C09 -----------------------------------------------------------------

func runAFFC(r *verifsim.Run) {
	sc := genDetScenario(r, "C09")
	describeDet(r, sc)
	c := &sc.Cfg
	w, tr := runScenario(sc, aOpts{SkipEv: -1})
	r.Count("frames", w.nextID)
	// rule 1: suppression
	prevAff := false
	nAff, nPeriods := 0, 0
	for i := range tr.Ev {
		e := &tr.Ev[i]
		if e.Kind != 'F' || e.Ord < 0 {
			continue
		}
		if e.FFC {
			nAff++
			if !prevAff {
				nPeriods++
			}
		}
		if e.Motion && (e.FFC || prevAff) {
			sig := "in-period"
			if !e.FFC {
				sig = "first-after"
			}
			tel := w.tels[e.ID]
			r.Violate("C09", "C09.suppress", sig, "frame id %d reported motion although TimeOn-LastFFCTime = %v (previous frame affected: %v)", e.ID, tel.TimeOn()-tel.LastFFCTime(), prevAff)
			return
		}
		if !e.FFC && prevAff {
			r.Probe("first-frame-after-ffc-period")
		}
		prevAff = e.FFC
	}
	r.ProbeN("ffc-affected-frames", nAff)
	if sc.ColdStart {
		r.Probe("stream-begins-at-power-on (FFC stamped 0)")
	}
	zz.CheckRecRules(r, tr, c.params()) // FFC frames have m=0, so no start/extension there (reported under C01-C04)
	// rule 2: independence of what came before an FFC period / a camera reset (paired histories)
	var cuts []int
	for i := range sc.Ev {
		if sc.Ev[i].Kind == 'F' && sc.Ev[i].FFC && i > 0 {
			cuts = append(cuts, i)
		}
		if sc.Ev[i].Kind == 'C' && !c.Motion.DynamicThreshold && i > 0 {
			cuts = append(cuts, i)
		}
	}
	if len(cuts) == 0 {
		return
	}
	k := cuts[r.Draw(len(cuts))]
	sc2 := *sc
	sc2.Ev = append([]aEvent(nil), sc.Ev...)
	g := &detGen{r: r, c: c, style: r.Pick(3, 1, 0)}
	for i := 0; i < k; i++ {
		if sc2.Ev[i].Kind == 'F' {
			sc2.Ev[i].Pix = g.next()
		} else if sc2.Ev[i].Kind == 'C' {
			g.hist = nil
		}
	}
	_, tr2 := runScenario(&sc2, aOpts{SkipEv: -1})
	kind := "ffc"
	from := k
	clearBefore := false
	for i := 0; i < k; i++ {
		if sc.Ev[i].Kind == 'C' {
			clearBefore = true
		}
	}
	if sc.Ev[k].Kind == 'C' {
		kind = "clear"
		from = k + 1
	} else {
		// first frame after the period
		from = len(tr.Ev)
		for i := k; i < len(tr.Ev); i++ {
			if tr.Ev[i].Kind == 'F' && !tr.Ev[i].FFC {
				from = i
				break
			}
		}
	}
	if r.Replay {
		for i := range tr.Ev {
			r.Logf("ev%d %c id%d ffc=%v motion %v/%v thresh %d/%d cut=%d from=%d", i, tr.Ev[i].Kind, tr.Ev[i].ID, tr.Ev[i].FFC, tr.Ev[i].Motion, tr2.Ev[i].Motion, tr.Ev[i].Thresh, tr2.Ev[i].Thresh, k, from)
		}
	}
	for i := from; i < len(tr.Ev); i++ {
		if tr.Ev[i].Kind == 'F' && tr.Ev[i].Motion != tr2.Ev[i].Motion {
			sig := kind
			if c.Motion.DynamicThreshold {
				sig += ":dynamic"
				if clearBefore {
					sig += ":reset-before"
				}
			} else {
				sig += ":fixed"
			}
			r.Violate("C09", "C09.independence", sig, "frame id %d (after the %s at event %d): detection %v vs %v in two histories that differ only in frames before event %d (thresholds now %d vs %d)", tr.Ev[i].ID, kind, k, tr.Ev[i].Motion, tr2.Ev[i].Motion, k, tr.Ev[i].Thresh, tr2.Ev[i].Thresh)
			return
		}
	}
	r.Probe("paired-cut-" + kind)
	if nPeriods > 0 {
		r.Nontrivial(fmt.Sprintf("%v:%s:cut%d", sc.Cfg, motionString(tr), k))
	}
	r.Distinct("c09", fmt.Sprintf("fps%d:dyn%v:%s:periods%d", c.Fps, c.Motion.DynamicThreshold, kind, nPeriods))
}

// ---- unit A.dyn : C15 -----------------------------------------------------------------

func runADyn(r *verifsim.Run) {
	sc := genDetScenario(r, "C15")
	describeDet(r, sc)
	c := &sc.Cfg
	m := c.Motion
	prevThresh := m.TempThresh
	prevAff := false
	reseed := true // start-up
	nChanges := 0
	nBg := 0                  // non-FFC frames the detector has seen since start-up / the last camera reset
	var prevInterior []uint16 // interior of the background after the previous non-FFC frame
	var tr *zz.Trace
	after := func(i int, w *aWorld) {
		if r.Failed() {
			return
		}
		e := &tr.Ev[i]
		d := w.mp.motionDetector
		if e.Kind == 'C' {
			reseed = true
			nBg, prevInterior = 0, nil
			// a camera reset may put the configured threshold back in force; that is not a recomputation
			if d.tempThresh != prevThresh && d.tempThresh != m.TempThresh {
				r.Violate("C15", "C15.threshold", "changed-by-reset", "the camera reset at event %d changed the threshold from %d to %d (configured %d)", i, prevThresh, d.tempThresh, m.TempThresh)
			}
			prevThresh = d.tempThresh
			return
		}
		if e.Kind != 'F' || e.Ord < 0 {
			return
		}
		defer func() { prevThresh = d.tempThresh; prevAff = e.FFC }()
		bg := d.background.Pix
		if !e.FFC {
			frame := w.sent[e.ID]
			sum, np := 0.0, 0
			nBg++
			interior := make([]uint16, 0, len(prevInterior))
			for y := c.Edge; y < c.H-c.Edge; y++ {
				interior = append(interior, bg[y][c.Edge:c.W-c.Edge]...)
			}
			contentChanged := false
			for k := range prevInterior {
				if prevInterior[k] != interior[k] {
					contentChanged = true
					break
				}
			}
			prevInterior = interior
			for y := c.Edge; y < c.H-c.Edge; y++ {
				for x := c.Edge; x < c.W-c.Edge; x++ {
					if bg[y][x] > frame[y][x] {
						r.Violate("C15", "C15.bg-warmer", "", "after frame id %d the background at (%d,%d) is %d, warmer than the frame's %d", e.ID, y, x, bg[y][x], frame[y][x])
						return
					}
					if (reseed || prevAff) && bg[y][x] != frame[y][x] {
						why := "ffc"
						if reseed {
							why = "reset"
						}
						r.Violate("C15", "C15.reseed", why, "frame id %d is the first after an FFC period/reset but background (%d,%d)=%d differs from the frame's %d", e.ID, y, x, bg[y][x], frame[y][x])
						return
					}
					sum += float64(bg[y][x])
					np++
				}
			}
			if reseed || prevAff {
				r.Probe("background-reseeded")
			}
			for y := 0; y < c.H; y++ {
				yy := y
				if yy < c.Edge {
					yy = c.Edge
				}
				if yy >= c.H-c.Edge {
					yy = c.H - c.Edge - 1
				}
				for x := 0; x < c.W; x++ {
					xx := x
					if xx < c.Edge {
						xx = c.Edge
					}
					if xx >= c.W-c.Edge {
						xx = c.W - c.Edge - 1
					}
					if (xx != x || yy != y) && bg[y][x] != bg[yy][xx] {
						r.Violate("C15", "C15.border", "", "after frame id %d background border pixel (%d,%d)=%d does not replicate the nearest interior pixel (%d,%d)=%d", e.ID, y, x, bg[y][x], yy, xx, bg[yy][xx])
						return
					}
				}
			}
			if d.tempThresh != prevThresh {
				nChanges++
				mean := sum / float64(np)
				want := mean
				lim := "mean"
				if m.TempThreshMin != 0 && want < float64(m.TempThreshMin) {
					want, lim = float64(m.TempThreshMin), "min"
				}
				if m.TempThreshMax != 0 && want > float64(m.TempThreshMax) {
					want, lim = float64(m.TempThreshMax), "max"
				}
				r.Probe("threshold-recomputed-" + lim)
				if diff := float64(d.tempThresh) - want; diff > 1 || diff < -1 {
					both := "one-bound"
					if m.TempThreshMin != 0 && m.TempThreshMax != 0 {
						both = "both-bounds"
					}
					if m.TempThreshMin == 0 && m.TempThreshMax == 0 {
						both = "no-bounds"
					}
					first := "steady"
					if reseed {
						first = "seed-frame"
					}
					r.Violate("C15", "C15.threshold", lim+":"+both+":"+first, "after frame id %d the threshold was recomputed to %d; mean of the interior background is %.2f, limited to [min %d, max %d] gives %.0f", e.ID, d.tempThresh, mean, m.TempThreshMin, m.TempThreshMax, want)
					return
				}
			}
			if d.tempThresh == prevThresh && contentChanged && nBg > d.previewFrames && np > 0 {
				// "tracks": the background is established (more frames than the preview since the last
				// reset) and its content moved on this frame, yet the threshold stayed where it was: then
				// where it was has to be where the mean is (a skipped recomputation is fine only when it
				// would not have changed anything)
				want := sum / float64(np)
				if m.TempThreshMin != 0 && want < float64(m.TempThreshMin) {
					want = float64(m.TempThreshMin)
				}
				if m.TempThreshMax != 0 && want > float64(m.TempThreshMax) {
					want = float64(m.TempThreshMax)
				}
				r.Probe("threshold-kept-while-background-moved")
				if diff := float64(d.tempThresh) - want; diff > 1 || diff < -1 {
					sig := "stale"
					if d.tempThresh == m.TempThresh {
						sig = "stale:configured-value"
					}
					r.Violate("C15", "C15.tracks", sig, "after frame id %d (%d frames since start-up/reset, preview %d) the background changed but the threshold stayed at %d; the mean of the interior background limited to [min %d, max %d] is %.0f", e.ID, nBg, d.previewFrames, d.tempThresh, m.TempThreshMin, m.TempThreshMax, want)
					return
				}
			}
			reseed = false
		}
		for _, cl := range e.Calls[zz.SinkMotion] {
			if cl.Op == 'S' {
				r.Probe("recording-start-with-dynamic-threshold")
				if cl.Thresh != d.tempThresh || cl.Bg == nil || zz.SumPix(cl.Bg) != zz.SumPix(bg) {
					r.Violate("C15", "C15.stored", "", "recording triggered at frame id %d was given threshold %d / a background that differ from the detector's (%d) at the trigger", e.ID, cl.Thresh, d.tempThresh)
					return
				}
			}
		}
	}
	w := newAWorld(sc, aOpts{SkipEv: -1})
	tr = w.tr
	w.exec(aOpts{SkipEv: -1, After: after})
	r.Count("frames", w.nextID)
	if nChanges > 0 {
		r.Nontrivial(fmt.Sprintf("%v:%s:%d", sc.Cfg, motionString(tr), nChanges))
	}
	r.Distinct("c15", fmt.Sprintf("min%v:max%v:edge%d:preview%d", m.TempThreshMin != 0, m.TempThreshMax != 0, c.Edge, c.Preview*c.Fps))
	if c.W >= 160 && nChanges > 0 {
		r.Probe(fmt.Sprintf("large-sensor-%dx%d", c.W, c.H))
	}
}
