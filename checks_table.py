"""Property → units table of the driver. A unit is a scenario family compiled into
one package's test binary; several properties may share a unit (each check
reports only the rules of its own property)."""

UNITS = {
    "A.rec": {"pkg": "motion"},
    "A.cont": {"pkg": "motion"},
    "A.bad": {"pkg": "motion"},
    "A.fault": {"pkg": "motion"},
}

_EXPL = "exploration"
_FE = "fault_enumeration"

HOOK_COMMITS = []
NOT_APPLICABLE = {}

_NOTE_A = ("trusted: the simulated camera/sinks/clock (harness/), the trace rules (harness/zzverif/rules_*.go) written from the property text, "
           "Go 1.26.8 toolchain building the go1.15-language module unchanged; sampling, not proof")

PROPS = {
    "C01": {"level": _EXPL, "level_text": "seeded search over configurations x histories x refused-start faults; every run checks consecutiveness, uniqueness and tiling of every motion recording on the real MotionProcessor; sampling, so a clean batch is evidence not proof", "level_note": _NOTE_A, "units": ["A.rec"], "quick_s": 20, "thorough_s": 420,
            "technique": "deterministic simulation: seeded histories + refused-start faults on the real MotionProcessor, trace rules",
            "required_probes": ["retrigger-within-reach", "refused-start-window", "refused-start-disk", "refused-start-create", "recording-cut-by-B", "recording-cut-by-C"]},
    "C02": {"level": _EXPL, "level_text": "seeded search; every start is checked against the stated pre-trigger formula at every ring phase", "level_note": _NOTE_A, "units": ["A.rec"], "quick_s": 20, "thorough_s": 420,
            "technique": "deterministic simulation: seeded histories on the real MotionProcessor, pre-trigger content rule",
            "required_probes": ["trigger-before-ring-full", "retrigger-within-reach"]},
    "C03": {"level": _EXPL, "level_text": "seeded search; every recording's end is checked online against the stated min/max rule incl. write-fault stratum", "level_note": _NOTE_A, "units": ["A.rec"], "quick_s": 20, "thorough_s": 420,
            "technique": "deterministic simulation: seeded motion patterns/configurations on the real MotionProcessor, length rule",
            "required_probes": ["recording-ended-by-cap", "recording-ended-by-min", "recording-extended"]},
    "C04": {"level": _EXPL, "level_text": "seeded search over motion bit-strings x wall-clock trajectories (boundaries, jumps, midnight) x disk/create outcomes; start iff all conjuncts", "level_note": _NOTE_A, "units": ["A.rec"], "quick_s": 20, "thorough_s": 420,
            "technique": "deterministic simulation: seeded wall-clock trajectories, disk/create faults, start-iff rule",
            "required_probes": ["refused-start-window", "refused-start-disk", "refused-start-create"]},
    "C12": {"level": _FE, "units": ["A.fault"], "quick_s": 25, "thorough_s": 480,
            "level_text": "for every sampled event sequence every single placement of a failing sink call is enumerated (plus seeded multi-fault plans); protocol monitor on three sinks, recover() around every call, bounded liveness after the last fault",
            "level_note": _NOTE_A,
            "technique": "deterministic simulation with exhaustive single-fault placement per sampled history, protocol monitors, bounded-liveness oracle",
            "required_probes": ["liveness-after-fault"]},
    "C13": {"level": _EXPL, "units": ["A.bad"], "quick_s": 20, "thorough_s": 420,
            "level_text": "seeded histories with byte-wise built raw frames; classification, never-recorded, clean end, differential (bad frame deleted) and telemetry/pixel fidelity rules",
            "level_note": _NOTE_A,
            "technique": "deterministic simulation: seeded bad-frame placement relative to triggers/recordings, differential re-execution",
            "required_probes": ["bad-frame-during-recording", "bad-frame-while-idle", "differential-idle"]},
    "C17": {"level": _EXPL, "units": ["A.cont"], "quick_s": 20, "thorough_s": 420,
            "level_text": "seeded histories executed four ways and compared; tiling/size rule on the continuous sink, 21-consecutive-frames rule on the test sink",
            "level_note": _NOTE_A,
            "technique": "deterministic simulation: seeded histories, paired re-executions (with/without requests, recorder, window)",
            "required_probes": ["continuous-file-complete", "test-recording-complete", "test-recording-during-motion-recording", "window-configured", "camera-reset"]},
}
