"""Property → units table of the driver. A unit is a scenario family compiled into
one package's test binary; several properties may share a unit (each check
reports only the rules of its own property)."""

UNITS = {
    "A.rec": {"pkg": "motion"},
    "A.cont": {"pkg": "motion"},
    "A.bad": {"pkg": "motion"},
    "A.fault": {"pkg": "motion"},
    "A.det": {"pkg": "motion"},
    "A.pair": {"pkg": "motion"},
    "A.ffc": {"pkg": "motion"},
    "A.dyn": {"pkg": "motion"},
    "A.ring": {"pkg": "motion"},
    "L.log": {"pkg": "loglimiter"},
}

_EXPL = "exploration"
_FE = "fault_enumeration"

HOOK_COMMITS = []
NOT_APPLICABLE = {}

_NOTE_A = ("trusted: the simulated camera/sinks/clock (harness/), the trace rules (harness/zzverif/rules_*.go) written from the property text, "
           "Go 1.26.8 toolchain building the go1.15-language module unchanged; sampling, not proof")

PROPS = {
    "C01": {"level": _EXPL, "level_text": "seeded search over configurations x histories x refused-start faults; every run checks consecutiveness, uniqueness and tiling of every motion recording on the real MotionProcessor; sampling, so a clean batch is evidence not proof", "level_note": _NOTE_A, "units": ["A.rec"], "quick_s": 20, "thorough_s": 420,
            "technique": "deterministic simulation: seeded histories + refused-start faults on the real MotionProcessor, trace rules",
            "required_probes": ["retrigger-within-reach", "refused-start-window", "refused-start-disk", "refused-start-create", "recording-cut-by-B", "recording-cut-by-C"]},
    "C02": {"level": _EXPL, "level_text": "seeded search; every start is checked against the stated pre-trigger formula at every ring phase", "level_note": _NOTE_A, "units": ["A.rec"], "quick_s": 20, "thorough_s": 420,
            "technique": "deterministic simulation: seeded histories on the real MotionProcessor, pre-trigger content rule",
            "required_probes": ["trigger-before-ring-full", "retrigger-within-reach"]},
    "C03": {"level": _EXPL, "level_text": "seeded search; every recording's end is checked online against the stated min/max rule incl. write-fault stratum", "level_note": _NOTE_A, "units": ["A.rec"], "quick_s": 20, "thorough_s": 420,
            "technique": "deterministic simulation: seeded motion patterns/configurations on the real MotionProcessor, length rule",
            "required_probes": ["recording-ended-by-cap", "recording-ended-by-min", "recording-extended"]},
    "C04": {"level": _EXPL, "level_text": "seeded search over motion bit-strings x wall-clock trajectories (boundaries, jumps, midnight) x disk/create outcomes; start iff all conjuncts", "level_note": _NOTE_A, "units": ["A.rec"], "quick_s": 20, "thorough_s": 420,
            "technique": "deterministic simulation: seeded wall-clock trajectories, disk/create faults, start-iff rule",
            "required_probes": ["refused-start-window", "refused-start-disk", "refused-start-create"]},
    "C12": {"level": _FE, "units": ["A.fault"], "quick_s": 25, "thorough_s": 480,
            "level_text": "for every sampled event sequence every single placement of a failing sink call is enumerated (plus seeded multi-fault plans); protocol monitor on three sinks, recover() around every call, bounded liveness after the last fault",
            "level_note": _NOTE_A,
            "technique": "deterministic simulation with exhaustive single-fault placement per sampled history, protocol monitors, bounded-liveness oracle",
            "required_probes": ["liveness-after-fault"]},
    "C13": {"level": _EXPL, "units": ["A.bad"], "quick_s": 20, "thorough_s": 420,
            "level_text": "seeded histories with byte-wise built raw frames; classification, never-recorded, clean end, differential (bad frame deleted) and telemetry/pixel fidelity rules",
            "level_note": _NOTE_A,
            "technique": "deterministic simulation: seeded bad-frame placement relative to triggers/recordings, differential re-execution",
            "required_probes": ["bad-frame-during-recording", "bad-frame-while-idle", "differential-idle"]},
    "C17": {"level": _EXPL, "units": ["A.cont"], "quick_s": 20, "thorough_s": 420,
            "level_text": "seeded histories executed four ways and compared; tiling/size rule on the continuous sink, 21-consecutive-frames rule on the test sink",
            "level_note": _NOTE_A,
            "technique": "deterministic simulation: seeded histories, paired re-executions (with/without requests, recorder, window)",
            "required_probes": ["continuous-file-complete", "test-recording-complete", "test-recording-during-motion-recording", "window-configured", "camera-reset"]},
    "C07": {"level": _EXPL, "units": ["A.det"], "quick_s": 20, "thorough_s": 360,
            "level_text": "seeded histories against a reference detector written from the statement; boundary-directed generator (delta, count, temp-thresh +-1); no fault/schedule search behind it (the property has none)",
            "level_note": _NOTE_A,
            "technique": "seeded history generation + executable reference model (simulator contributes histories only)",
            "required_probes": ["count-exactly-at-threshold", "count-one-below-threshold", "camera-reset"]},
    "C08": {"level": _EXPL, "units": ["A.pair"], "quick_s": 20, "thorough_s": 360,
            "level_text": "relational: two real processors fed paired streams; no reference model, hence no modelling risk",
            "level_note": _NOTE_A,
            "technique": "seeded paired histories, differential execution of the real code",
            "required_probes": ["pair-border", "pair-subthreshold", "pair-dynamic-threshold"]},
    "C09": {"level": _EXPL, "units": ["A.ffc"], "quick_s": 20, "thorough_s": 420,
            "level_text": "seeded FFC/reset histories driven by a simulated camera uptime clock; suppression rule on every frame, independence rule on paired histories",
            "level_note": _NOTE_A,
            "technique": "deterministic simulation: simulated camera clock + FFC events, paired-history differential",
            "required_probes": ["first-frame-after-ffc-period", "paired-cut-ffc", "paired-cut-clear"]},
    "C15": {"level": _EXPL, "units": ["A.dyn"], "quick_s": 20, "thorough_s": 360,
            "level_text": "seeded histories; background/threshold invariants evaluated in-package after every frame",
            "level_note": _NOTE_A,
            "technique": "seeded history generation + invariants (simulator contributes histories only)",
            "required_probes": ["background-reseeded", "threshold-recomputed-mean", "threshold-recomputed-min", "threshold-recomputed-max", "recording-start-with-dynamic-threshold"]},
    "C19": {"level": _EXPL, "units": ["A.ring"], "quick_s": 15, "thorough_s": 240,
            "level_text": "seeded operation sequences against a reference ring; the abstract state space is small and the number of distinct states reached is reported",
            "level_note": _NOTE_A,
            "technique": "seeded operation histories + executable reference model (simulator contributes histories only)",
            "required_probes": ["set-as-oldest", "reset", "mark-at-last-retained-slot"]},
    "C20": {"level": _EXPL, "units": ["L.log"], "quick_s": 15, "thorough_s": 240,
            "level_text": "seeded (message, arrival time) histories on a simulated clock incl. exact interval boundaries; captured output vs reference limiter, line by line",
            "level_note": "trusted: simulated clock injected in-package (nowFunc), R-log written from the statement; sampling",
            "technique": "deterministic simulation: simulated clock, seeded arrival histories, reference model",
            "required_probes": ["repeat-suppressed", "repeat-printed-after-interval", "arrival-exactly-at-interval"]},
}
