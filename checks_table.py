"""Property → units table of the driver. A unit is a scenario family compiled into
one package's test binary; several properties may share a unit (each check
reports only the rules of its own property)."""

UNITS = {
    "A.rec": {"pkg": "motion"},
}

_EXPL = "exploration"
_FE = "fault_enumeration"

HOOK_COMMITS = []
NOT_APPLICABLE = {}

_NOTE_A = ("trusted: the simulated camera/sinks/clock (harness/), the trace rules (harness/zzverif/rules_*.go) written from the property text, "
           "Go 1.26.8 toolchain building the go1.15-language module unchanged; sampling, not proof")

PROPS = {
    "C01": {"level": _EXPL, "level_text": "seeded search over configurations x histories x refused-start faults; every run checks consecutiveness, uniqueness and tiling of every motion recording on the real MotionProcessor; sampling, so a clean batch is evidence not proof", "level_note": _NOTE_A, "units": ["A.rec"], "quick_s": 20, "thorough_s": 420,
            "technique": "deterministic simulation: seeded histories + refused-start faults on the real MotionProcessor, trace rules",
            "required_probes": ["retrigger-within-reach", "refused-start-window", "refused-start-disk", "refused-start-create", "recording-cut-by-B", "recording-cut-by-C"]},
    "C02": {"level": _EXPL, "level_text": "seeded search; every start is checked against the stated pre-trigger formula at every ring phase", "level_note": _NOTE_A, "units": ["A.rec"], "quick_s": 20, "thorough_s": 420,
            "technique": "deterministic simulation: seeded histories on the real MotionProcessor, pre-trigger content rule",
            "required_probes": ["trigger-before-ring-full", "retrigger-within-reach"]},
    "C03": {"level": _EXPL, "level_text": "seeded search; every recording's end is checked online against the stated min/max rule incl. write-fault stratum", "level_note": _NOTE_A, "units": ["A.rec"], "quick_s": 20, "thorough_s": 420,
            "technique": "deterministic simulation: seeded motion patterns/configurations on the real MotionProcessor, length rule",
            "required_probes": ["recording-ended-by-cap", "recording-ended-by-min", "recording-extended"]},
    "C04": {"level": _EXPL, "level_text": "seeded search over motion bit-strings x wall-clock trajectories (boundaries, jumps, midnight) x disk/create outcomes; start iff all conjuncts", "level_note": _NOTE_A, "units": ["A.rec"], "quick_s": 20, "thorough_s": 420,
            "technique": "deterministic simulation: seeded wall-clock trajectories, disk/create faults, start-iff rule",
            "required_probes": ["refused-start-window", "refused-start-disk", "refused-start-create"]},
}
