#!/usr/bin/env python3
"""Confirms staged seeded changes (from sub-agents) in scratch worktrees of /repo and
stores the confirmed ones as /verif/seeded/<id>/ (patch.diff, demo, meta.json).

usage: confirm_seeded.py <stage-dir> [ids...]     stage-dir/<P>-<V>/{V.patch.diff,V.meta.json,V.demo/}
Confirmation = on the base tree: demo passes; with the patch: go build ok, the full
existing suite passes, the demo fails. Nothing is ever applied to /repo itself.
"""
import glob, json, os, re, shutil, subprocess, sys, concurrent.futures as cf

V = os.path.dirname(os.path.dirname(os.path.abspath(__file__)))
ENV = dict(os.environ, GOFLAGS="-mod=mod", GOPROXY="off", GOSUMDB="off")


def sh(cmd, cwd, timeout=900):
    r = subprocess.run(cmd, shell=True, cwd=cwd, env=ENV, capture_output=True, text=True, timeout=timeout)
    return r.returncode, (r.stdout + r.stderr)[-3000:]


def confirm(stage, mid, slot):
    d = os.path.join(stage, mid)
    v = mid.split("-")[1][0]
    meta = json.load(open(os.path.join(d, v + ".meta.json")))
    patch = os.path.join(d, v + ".patch.diff")
    demo_files = [f for f in glob.glob(os.path.join(d, v + ".demo", "*")) if not f.endswith("README.txt")]
    m = re.search(r"cp\s+\S+\s+(\S+?)/?\s*(?:&&|;)", meta["demo_cmd"])
    pat = re.search(r"-run[ =]'?\"?([A-Za-z0-9_|^$.]+)", meta["demo_cmd"])
    if not m or not pat:
        return mid, False, "cannot parse demo_cmd"
    pkgdir, runpat = m.group(1), pat.group(1)
    wt = "/tmp/confirm_wt_%d" % slot
    sh("git -C /repo worktree remove --force %s" % wt, "/")
    rc, out = sh("git -C /repo worktree add --detach %s HEAD -f" % wt, "/")
    if rc != 0:
        return mid, False, "worktree: " + out
    res = {"base_commit": subprocess.run("git -C /repo rev-parse --short HEAD", shell=True, capture_output=True, text=True).stdout.strip()}
    try:
        race = "-race " if " -race " in meta["demo_cmd"] else ""
        demo_cmd = "go test %s-vet=off -count=1 -run '%s' ./%s/" % (race, runpat, pkgdir)
        suite = "go test -vet=off -count=1 ./..."
        for f in demo_files:
            shutil.copy(f, os.path.join(wt, pkgdir))
        rc, out = sh(demo_cmd, wt)
        res["demo_on_base"] = "pass" if rc == 0 else "FAIL"
        if rc != 0:
            return mid, False, "demo fails on base tree:\n" + out
        rc, out = sh("git apply %s" % patch, wt)
        if rc != 0:
            return mid, False, "patch does not apply: " + out
        rc, out = sh("go build ./...", wt)
        res["build_with_patch"] = "ok" if rc == 0 else "FAIL"
        if rc != 0:
            return mid, False, "build fails with patch:\n" + out
        rc, out = sh(demo_cmd, wt)
        res["demo_with_patch"] = "fails (as required)" if rc != 0 else "PASSES"
        if rc == 0:
            return mid, False, "demo passes with patch"
        res["demo_failure_tail"] = out[-600:]
        for f in demo_files:
            os.remove(os.path.join(wt, pkgdir, os.path.basename(f)))
        rc, out = sh(suite, wt)
        res["suite_with_patch"] = "pass" if rc == 0 else "FAIL"
        if rc != 0:
            return mid, False, "existing suite fails with patch:\n" + out
        # store
        dst = os.path.join(V, "seeded", mid)
        shutil.rmtree(dst, ignore_errors=True)
        os.makedirs(dst)
        shutil.copy(patch, os.path.join(dst, "patch.diff"))
        os.makedirs(os.path.join(dst, "demo"))
        for f in glob.glob(os.path.join(d, v + ".demo", "*")):
            shutil.copy(f, os.path.join(dst, "demo"))
        meta_out = {
            "id": mid, "property": meta["property"], "breaks": meta.get("clause_broken"), "summary": meta.get("summary"),
            "needs_to_manifest": meta.get("needs_to_manifest"), "files_changed": meta.get("files_changed"),
            "demo": {"copy_to": pkgdir, "run": demo_cmd}, "confirmed": res,
            "what_i_ran": ["scratch worktree of /repo at " + res["base_commit"], "demo on base: " + demo_cmd, "git apply patch.diff; go build ./...", "demo with patch: " + demo_cmd, "suite with patch: " + suite],
            "origin": "independent sub-agent given only the property text",
        }
        json.dump(meta_out, open(os.path.join(dst, "meta.json"), "w"), indent=1)
        return mid, True, "confirmed"
    finally:
        sh("git -C /repo worktree remove --force %s" % wt, "/")


def main():
    stage = sys.argv[1]
    ids = sys.argv[2:] or sorted(os.listdir(stage))
    results = {}
    with cf.ThreadPoolExecutor(4) as ex:
        futs = []
        for i, mid in enumerate(ids):
            futs.append(ex.submit(confirm, stage, mid, i))
        for f in futs:
            mid, ok, msg = f.result()
            results[mid] = (ok, msg)
            print(mid, "OK" if ok else "REJECTED", msg if not ok else "", flush=True)
    return 0


if __name__ == "__main__":
    sys.exit(main())
