#!/bin/bash
# usage: tools/trybatch.sh <budget> id:prop [id:prop...]  — one line per seeded change
budget=$1; shift
for m in "$@"; do id=${m%%:*}; p=${m##*:};
  out=$(tools/trymutant.sh $id $p --budget $budget --workers 8 2>&1)
  rc=$(echo "$out" | grep "^MUTANT" | sed 's/.*exit //')
  rule=$(echo "$out" | grep "  rule=" | head -1 | cut -c1-150)
  echo "$id on $p -> exit $rc $rule"
done
