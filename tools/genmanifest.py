#!/usr/bin/env python3
"""Regenerates /verif/MANIFEST.json from checks_table.py (single source of truth)."""
import json, os, sys
V = os.path.dirname(os.path.dirname(os.path.abspath(__file__)))
sys.path.insert(0, V)
from checks_table import PROPS, UNITS, NOT_APPLICABLE, HOOK_COMMITS  # noqa

props = [json.loads(l) for l in open(os.path.join(V, "properties.jsonl"))]
checks = []
for p in props:
    pid = p["id"]
    if pid not in PROPS:
        continue
    s = PROPS[pid]
    checks.append({
        "property_id": pid,
        "quick_cmd": "./check %s --tier quick" % pid,
        "thorough_cmd": "./check %s --tier thorough" % pid,
        "evidence_file": "/verif/evidence/%s.json" % pid,
        "replay_cmd_template": "./check replay {path}",
        "engine": "verifsim",
        "level_claimed": {"category": s["level"], "text": s["level_text"], "design_ref": s.get("design_ref", "DESIGN.md §5 " + pid)},
        "level_note": s["level_note"],
        "technique": s["technique"],
    })
na = [{"property_id": p["id"], "reason": NOT_APPLICABLE.get(p["id"], "check not built yet in this phase (planned, see DESIGN.md §5)")}
      for p in props if p["id"] not in PROPS]
m = {
    "version": 1,
    "setup_cmd": "./check build",
    "hooks": {
        "guard": "verif",
        "enable": "go1.26.8 test -c -tags verif -modfile <copy of /repo/go.mod + verifsim> -overlay <harness files + instrumented copies generated from the current tree>; no hook source is committed to /repo",
        "baseline_off_cmd": "cd /repo && GOFLAGS=-mod=mod GOPROXY=off GOSUMDB=off go test -vet=off -count=1 ./...",
        "source_commits": HOOK_COMMITS,
        "add_only": True,
    },
    "engines": [{"name": "verifsim", "path": "/verif/sim", "serves_properties": [c["property_id"] for c in checks],
                 "kind_free_text": "seeded deterministic simulator: choice tape, simulated clocks/camera/sinks, AST-instrumented task scheduler under testing/synctest, tape minimiser, replay"}],
    "checks": checks,
    "notes": "All checks rebuild from /repo's working tree (go1.26.8, -overlay, -modfile); see DESIGN.md. Exit 2 = build/harness trouble, never a violation.",
    "not_applicable": na,
}
json.dump(m, open(os.path.join(V, "MANIFEST.json"), "w"), indent=1)
print("MANIFEST.json: %d checks, %d not_applicable" % (len(checks), len(na)))
