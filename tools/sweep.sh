#!/bin/bash
# usage: tools/sweep.sh <tier> <seed> [props...] — runs checks sequentially, prints one line each
tier=$1; seed=$2; shift 2
props=${@:-C01 C02 C03 C04 C05 C06 C07 C08 C09 C10 C11 C12 C13 C14 C15 C16 C17 C18 C19 C20}
for p in $props; do
  ./check $p --tier $tier --seed $seed 2>&1 | grep -E "VIOLATION|rule=|HELD|VIOLATED|ERROR|HOLLOW|HARNESS|KNOWN" | cut -c1-400
done
