// instr writes an instrumented copy of one Go source file of the repository:
//
//   - verifsim.Y("<rel>:<func>:L<line>") before every statement of every function
//     body (block, case and comm clause bodies, function literals included);
//   - X.Lock()/X.Unlock()/X.RLock()/X.RUnlock() (also deferred) become
//     verifsim.Lock(&X, label) / verifsim.Unlock(&X, label), so that the simulator
//     knows lock ownership;
//   - `go f(a, b)` becomes { a0, a1 := a, b; verifsim.Spawn(label, func() { f(a0, a1) }) }
//     so that goroutines started by the code under test are scheduled tasks.
//
// The copy is regenerated from the current working tree on every check run and
// replaces the original through `go build -overlay`; /repo is never written.
package main

import (
	"bytes"
	"flag"
	"fmt"
	"go/ast"
	"go/format"
	"go/parser"
	"go/token"
	"os"
	"strconv"
)

var (
	fset = token.NewFileSet()
	rel  string
	fn   string
	nY   int
)

func label(pos token.Pos) *ast.BasicLit {
	return &ast.BasicLit{Kind: token.STRING, Value: strconv.Quote(fmt.Sprintf("%s:%s:L%d", rel, fn, fset.Position(pos).Line))}
}

func call(name string, args ...ast.Expr) *ast.CallExpr {
	return &ast.CallExpr{Fun: &ast.SelectorExpr{X: ast.NewIdent("verifsim"), Sel: ast.NewIdent(name)}, Args: args}
}

func yield(pos token.Pos) ast.Stmt {
	nY++
	return &ast.ExprStmt{X: call("Y", label(pos))}
}

// lockCall recognises X.Lock() etc. and returns the replacement call.
func lockCall(e ast.Expr) *ast.CallExpr {
	c, ok := e.(*ast.CallExpr)
	if !ok || len(c.Args) != 0 {
		return nil
	}
	s, ok := c.Fun.(*ast.SelectorExpr)
	if !ok {
		return nil
	}
	var name string
	switch s.Sel.Name {
	case "Lock":
		name = "Lock"
	case "RLock":
		name = "RLock"
	case "Unlock":
		name = "Unlock"
	case "RUnlock":
		name = "RUnlock"
	default:
		return nil
	}
	return call(name, &ast.UnaryExpr{Op: token.AND, X: s.X}, label(c.Pos()))
}

func rewriteList(list []ast.Stmt) []ast.Stmt {
	var out []ast.Stmt
	for _, st := range list {
		pos := st.Pos()
		st = rewriteStmt(st)
		out = append(out, yield(pos), st)
	}
	return out
}

func rewriteBlock(b *ast.BlockStmt) {
	if b != nil {
		b.List = rewriteList(b.List)
	}
}

// rewriteFuncBody is rewriteBlock with the first yield labelled "<rel>:<func>:entry".
func rewriteFuncBody(b *ast.BlockStmt) {
	rewriteBlock(b)
	if len(b.List) > 0 {
		if es, ok := b.List[0].(*ast.ExprStmt); ok {
			if c, ok := es.X.(*ast.CallExpr); ok && len(c.Args) == 1 {
				c.Args[0] = &ast.BasicLit{Kind: token.STRING, Value: strconv.Quote(fmt.Sprintf("%s:%s:entry", rel, fn))}
			}
		}
	}
}

func rewriteStmt(st ast.Stmt) ast.Stmt {
	switch s := st.(type) {
	case *ast.BlockStmt:
		rewriteBlock(s)
	case *ast.IfStmt:
		rewriteFuncLits(s.Init)
		rewriteFuncLitsExpr(s.Cond)
		rewriteBlock(s.Body)
		if s.Else != nil {
			s.Else = rewriteStmt(s.Else)
		}
	case *ast.ForStmt:
		rewriteBlock(s.Body)
	case *ast.RangeStmt:
		rewriteBlock(s.Body)
	case *ast.SwitchStmt:
		for _, c := range s.Body.List {
			cc := c.(*ast.CaseClause)
			cc.Body = rewriteList(cc.Body)
		}
	case *ast.TypeSwitchStmt:
		for _, c := range s.Body.List {
			cc := c.(*ast.CaseClause)
			cc.Body = rewriteList(cc.Body)
		}
	case *ast.SelectStmt:
		for _, c := range s.Body.List {
			cc := c.(*ast.CommClause)
			cc.Body = rewriteList(cc.Body)
		}
	case *ast.LabeledStmt:
		s.Stmt = rewriteStmt(s.Stmt)
	case *ast.ExprStmt:
		if r := lockCall(s.X); r != nil {
			s.X = r
		} else {
			rewriteFuncLitsExpr(s.X)
		}
	case *ast.DeferStmt:
		if r := lockCall(s.Call); r != nil {
			s.Call = r
		} else {
			rewriteFuncLitsExpr(s.Call)
		}
	case *ast.GoStmt:
		return rewriteGo(s)
	case *ast.AssignStmt:
		for _, e := range s.Rhs {
			rewriteFuncLitsExpr(e)
		}
	case *ast.ReturnStmt:
		for _, e := range s.Results {
			rewriteFuncLitsExpr(e)
		}
	}
	return st
}

func rewriteFuncLits(st ast.Stmt) {
	if st != nil {
		rewriteStmt(st)
	}
}

// rewriteFuncLitsExpr instruments the bodies of function literals inside an expression.
func rewriteFuncLitsExpr(e ast.Expr) {
	if e == nil {
		return
	}
	ast.Inspect(e, func(n ast.Node) bool {
		if fl, ok := n.(*ast.FuncLit); ok {
			rewriteBlock(fl.Body)
			return false
		}
		return true
	})
}

func rewriteGo(s *ast.GoStmt) ast.Stmt {
	lab := label(s.Pos())
	if fl, ok := s.Call.Fun.(*ast.FuncLit); ok && len(s.Call.Args) == 0 {
		rewriteBlock(fl.Body)
		return &ast.ExprStmt{X: call("Spawn", lab, fl)}
	}
	var names, vals []ast.Expr
	var args []ast.Expr
	for i, a := range s.Call.Args {
		n := ast.NewIdent(fmt.Sprintf("verifArg%d", i))
		names = append(names, n)
		vals = append(vals, a)
		args = append(args, ast.NewIdent(n.Name))
	}
	inner := &ast.CallExpr{Fun: s.Call.Fun, Args: args, Ellipsis: s.Call.Ellipsis}
	lit := &ast.FuncLit{Type: &ast.FuncType{Params: &ast.FieldList{}}, Body: &ast.BlockStmt{List: []ast.Stmt{&ast.ExprStmt{X: inner}}}}
	blk := &ast.BlockStmt{}
	if len(names) > 0 {
		blk.List = append(blk.List, &ast.AssignStmt{Lhs: names, Tok: token.DEFINE, Rhs: vals})
	}
	blk.List = append(blk.List, &ast.ExprStmt{X: call("Spawn", lab, lit)})
	return blk
}

func main() {
	in := flag.String("in", "", "input file")
	out := flag.String("out", "", "output file")
	flag.StringVar(&rel, "rel", "", "path relative to the repository root (used in labels)")
	mode := flag.String("mode", "sim", "sim|race (recorded in a header comment only; behaviour is chosen at run time)")
	flag.Parse()
	src, err := os.ReadFile(*in)
	if err != nil {
		fmt.Fprintln(os.Stderr, err)
		os.Exit(1)
	}
	f, err := parser.ParseFile(fset, *in, src, parser.ParseComments)
	if err != nil {
		fmt.Fprintln(os.Stderr, err)
		os.Exit(1)
	}
	// comments would be misplaced by the insertions; drop all but build constraints / directives at the top
	var keep []*ast.CommentGroup
	for _, cg := range f.Comments {
		if cg.End() < f.Package {
			keep = append(keep, cg)
		}
	}
	f.Comments = keep
	for _, d := range f.Decls {
		fd, ok := d.(*ast.FuncDecl)
		if !ok || fd.Body == nil {
			continue
		}
		fn = fd.Name.Name
		rewriteFuncBody(fd.Body)
	}
	// the free-space question goes to the simulated disk: syscall.Statfs(...) -> verifsim.Statfs(...)
	ast.Inspect(f, func(n ast.Node) bool {
		if c, ok := n.(*ast.CallExpr); ok {
			if s, ok := c.Fun.(*ast.SelectorExpr); ok && s.Sel.Name == "Statfs" {
				if x, ok := s.X.(*ast.Ident); ok && x.Name == "syscall" {
					x.Name = "verifsim"
				}
			}
		}
		return true
	})
	// import "verifsim"
	imp := &ast.GenDecl{Tok: token.IMPORT, Specs: []ast.Spec{&ast.ImportSpec{Path: &ast.BasicLit{Kind: token.STRING, Value: `"verifsim"`}}}}
	f.Decls = append([]ast.Decl{imp}, f.Decls...)
	var buf bytes.Buffer
	if err := format.Node(&buf, fset, f); err != nil {
		fmt.Fprintln(os.Stderr, "format:", err)
		os.Exit(1)
	}
	hdr := fmt.Sprintf("// Code generated by /verif/tools/instr from %s (mode %s, %d yields). DO NOT EDIT.\n", rel, *mode, nY)
	if err := os.WriteFile(*out, append([]byte(hdr), buf.Bytes()...), 0644); err != nil {
		fmt.Fprintln(os.Stderr, err)
		os.Exit(1)
	}
}
