module instr

go 1.26
