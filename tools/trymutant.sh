#!/bin/bash
# usage: tools/trymutant.sh <seeded-id|patch-file> <prop> [check args...]
# Applies a seeded change in a scratch worktree of /repo (never /repo itself), runs the
# check of <prop> against it (VERIF_REPO), removes the worktree. Replays go to /tmp/mutreplays.
id=$1; prop=$2; shift 2
patch=$(realpath -q "$id" 2>/dev/null); [ -f "$patch" ] || patch=/verif/seeded/$id/patch.diff
wt=/tmp/mut_$$_$(basename $id)
git -C /repo worktree add --detach $wt HEAD -f >/dev/null 2>&1 || { echo "worktree failed"; exit 3; }
git -C $wt apply $patch || { echo "APPLY FAILED $patch"; git -C /repo worktree remove --force $wt; exit 3; }
VERIF_REPO=$wt VERIF_REPLAY_DIR=/tmp/mutreplays ${VERIF_HOME:-/verif}/check $prop "$@"
rc=$?
git -C /repo worktree remove --force $wt
echo "MUTANT $id on $prop -> exit $rc"
exit $rc
