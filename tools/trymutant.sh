#!/bin/bash
# usage: tools_trymutant.sh <worktree> <patch> <prop> [check args...]
# applies patch in the scratch worktree, runs the check against it (VERIF_REPO), reverts.
wt=$1; patch=$2; prop=$3; shift 3
git -C $wt checkout -- . && git -C $wt apply $patch || { echo "APPLY FAILED"; exit 3; }
VERIF_REPO=$wt VERIF_REPLAY_DIR=/tmp/mutreplays /verif/check $prop "$@"
rc=$?
git -C $wt checkout -- .
echo "mutant $patch on $prop -> exit $rc"
exit $rc
