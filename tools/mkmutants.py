#!/usr/bin/env python3
"""(Re)generates the hand-made part of the sensitivity catalogue: each entry is a small
property-breaking edit of the current /repo tree, written as mutants/<id>.patch by applying
the edit in a scratch worktree outside /repo and /verif. Seeded changes of sub-agents
(/verif/seeded/<id>/patch.diff) are added to the catalogue with the check that catches them.
"""
import json, os, subprocess, sys

V = os.path.dirname(os.path.dirname(os.path.abspath(__file__)))
WT = "/tmp/verif_mkmut_%d" % os.getpid()

M = [
    # id, check, file, old, new
    ("C01-h1-no-setasoldest", "C01", "motion/motionprocessor.go", "	mp.frameLoop.SetAsOldest()\n\n	return err", "	return err"),
    ("C01-h2-pretrigger-writes-current", "C01", "motion/motionprocessor.go", "	for ii < len(frames)-1 {", "	for ii < len(frames) {"),
    ("C01-h3-move-before-write", "C01", "motion/motionprocessor.go",
     "	// If recording, write the frame.\n	if mp.isRecording {\n		err := mp.recorder.WriteFrame(frame)",
     "	mp.frameLoop.Move()\n	// If recording, write the frame.\n	if mp.isRecording {\n		err := mp.recorder.WriteFrame(mp.frameLoop.Current())"),
    ("C02-h1-ring-preview-only", "C02", "motion/motionprocessor.go", "NewFrameLoop(recorderConf.PreviewSecs*c.FPS()+motionConf.TriggerFrames, c)", "NewFrameLoop(recorderConf.PreviewSecs*c.FPS()+1, c)"),
    ("C02-h2-history-off-by-one", "C02", "motion/frameloop.go", "historyLength := (fl.currentIndex-fl.oldest+fl.size)%fl.size + 1", "historyLength := (fl.currentIndex - fl.oldest + fl.size) % fl.size"),
    ("C02-h3-mark-not-expired", "C02", "motion/frameloop.go", "	if fl.currentIndex == fl.oldest {\n		fl.oldest = NO_OLDEST_SET\n	}\n", ""),
    ("C03-h1-no-max-cap", "C03", "motion/motionprocessor.go", "mp.writeUntil = min(mp.framesWritten+mp.minFrames, mp.maxFrames)", "mp.writeUntil = mp.framesWritten + mp.minFrames"),
    ("C03-h2-literal-9fps", "C03", "motion/motionprocessor.go", "minFrames:         recorderConf.MinSecs * c.FPS(),", "minFrames:         recorderConf.MinSecs * 9,"),
    ("C03-h3-gt-writeuntil", "C03", "motion/motionprocessor.go", "mp.framesWritten >= mp.writeUntil", "mp.framesWritten > mp.writeUntil"),
    ("C04-h1-no-window-check", "C04", "motion/motionprocessor.go", "	if !mp.window.Active() {\n		return errors.New(\"motion detected but outside of recording window\")\n	}\n", "	_ = errors.New\n"),
    ("C04-h2-refused-start-resets-run", "C04", "motion/motionprocessor.go", "			mp.log.Printf(\"Recording not started: %v\", err)\n", "			mp.log.Printf(\"Recording not started: %v\", err)\n			mp.triggered = 0\n"),
    ("C04-h3-window-start-stop-swapped", "C04", "recorder/recorderconfig.go", "		windowsConfig.StartRecording,\n		windowsConfig.StopRecording,", "		windowsConfig.StopRecording,\n		windowsConfig.StartRecording,"),
    ("C04-h4-min-disk-space-ignored", "C04", "cmd/thermal-recorder/cptvfilerecorder.go", "	} else if !enoughSpace {", "	} else if !enoughSpace && cfr.minDiskSpace == 0 {"),
    ("C05-h3-activate-inverted", "C05", "cmd/thermal-recorder/main.go", "	if conf.Throttler.Activate {", "	if !conf.Throttler.Activate {"),
    ("C06-h4-minclip-from-minsecs-only", "C06", "cmd/thermal-recorder/main.go", "minRecordingLength := conf.Recorder.MinSecs + conf.Recorder.PreviewSecs", "minRecordingLength := conf.Recorder.MinSecs"),
    ("C06-h5-daemon-passes-no-listener", "C06", "cmd/thermal-recorder/main.go", "minRecordingLength, new(throttle.ThrottledEventRecorder), headerInfo", "minRecordingLength, nil, headerInfo"),
    ("C13-h6-bad-frame-report-skipped-sometimes", "C13", "cmd/thermal-recorder/main.go", "err.(*lepton3.BadFrameErr); isBadFrame {", "err.(*lepton3.BadFrameErr); isBadFrame && time.Now().UnixNano()%3 != 0 {"),
    ("C13-h7-no-restart-request", "C13", "cmd/thermal-recorder/main.go", "			leptondController.RestartCamera()\n", ""),
    ("C05-h1-take-ignored", "C05", "throttle/throttled_recorder.go", "	if throttler.bucket.TakeAvailable(1) > 0 {", "	if throttler.bucket.TakeAvailable(1) >= 0 {"),
    ("C05-h2-double-bucket", "C05", "throttle/throttled_recorder.go", "bucketFrames := int64(config.BucketSize.Seconds()) * int64(camera.FPS())", "bucketFrames := 2 * int64(config.BucketSize.Seconds()) * int64(camera.FPS())"),
    ("C06-h1-event-per-suppressed-frame", "C06", "throttle/throttled_recorder.go", "		if !throttler.recording {\n			return nil\n		}", "		if !throttler.recording {\n			throttler.listener.WhenThrottled()\n			return nil\n		}"),
    ("C06-h2-stop-always-forwarded", "C06", "throttle/throttled_recorder.go", "	if throttler.recording {\n		throttler.recording = false\n		return throttler.recorder.StopRecording()\n	}\n	return nil", "	throttler.recording = false\n	return throttler.recorder.StopRecording()"),
    ("C06-h3-restart-any-budget", "C06", "throttle/throttled_recorder.go", "	if throttler.bucket.Available() >= throttler.minRecordingLength {", "	if throttler.bucket.Available() > 0 {"),
    ("C07-h1-ge-delta", "C07", "motion/motion.go", "			if v > d.deltaThresh {\n				deltaCount++", "			if v >= d.deltaThresh {\n				deltaCount++"),
    ("C07-h2-gt-count", "C07", "motion/motion.go", "return deltaCount >= d.countThresh, deltaCount", "return deltaCount > d.countThresh, deltaCount"),
    ("C07-h3-compare-with-previous", "C07", "motion/motion.go", "	compareFrame := d.flooredFrames.Oldest()", "	compareFrame := d.flooredFrames.frames[(d.flooredFrames.currentIndex-1+d.flooredFrames.size)%d.flooredFrames.size]"),
    ("C08-h1-background-rows-from-zero", "C08", "motion/motion.go", "	for y := d.start; y < d.rowStop; y++ {\n		for x := d.start; x < d.columnStop; x++ {\n			weight := d.backgroundWeight[y][x]", "	for y := 0; y < d.rowStop; y++ {\n		for x := d.start; x < d.columnStop; x++ {\n			weight := d.backgroundWeight[y][x]"),
    ("C08-h2-clamp-leaks-one-count", "C08", "motion/motion.go", "			va := a.Pix[y][x]\n			if va < d.tempThresh {\n				va = d.tempThresh\n			}\n			vb := b.Pix[y][x]\n			if vb < d.tempThresh {\n				vb = d.tempThresh\n			}\n			out.Pix[y][x] = absDiff(va, vb)", "			va := a.Pix[y][x]\n			if va+1 < d.tempThresh {\n				va = d.tempThresh\n			}\n			vb := b.Pix[y][x]\n			if vb < d.tempThresh {\n				vb = d.tempThresh\n			}\n			out.Pix[y][x] = absDiff(va, vb)"),
    ("C09-h1-no-prevffc", "C09", "motion/motion.go", "	if isAffectedByFFC(frame) || prevFFC {\n		d.debug.update(\"ffc\", 1)", "	if isAffectedByFFC(frame) {\n		d.debug.update(\"ffc\", 1)"),
    ("C09-h2-le-period", "C09", "motion/motion.go", "return f.Status.TimeOn-f.Status.LastFFCTime < ffcPeriod", "return f.Status.TimeOn-f.Status.LastFFCTime < ffcPeriod-time.Second"),
    ("C09-h3-reset-keeps-rings", "C09", "motion/motion.go", "	d.flooredFrames.Reset()\n	d.diffFrames.Reset()", "	d.diffFrames.Reset()"),
    ("C10-h1-rename-before-close", "C10", "cmd/thermal-recorder/cptvfilerecorder.go", "		fw.writer.Close()\n\n		finalName, err := renameTempRecording(fw.writer.Name())", "		finalName, err := renameTempRecording(fw.writer.Name())\n		fw.writer.Close()\n"),
    ("C10-h2-record-to-final-name", "C10", "cmd/thermal-recorder/cptvfilerecorder.go", "	return time.Now().Format(\"20060102.150405.000.\" + cptvTempExt)", "	return time.Now().Format(\"20060102.150405.000.cptv\")"),
    ("C10-h3-cleanup-misses-scratch", "C10", "cmd/thermal-recorder/cptvfilerecorder.go", "filepath.Glob(filepath.Join(dir, \"*.\"+cptvTempExt+\"*\"))", "filepath.Glob(filepath.Join(dir, \"*.\"+cptvTempExt))"),
    ("C10-h4-startup-cleanup-removed", "C10", "cmd/thermal-recorder/main.go", "	log.Println(\"deleting temp files\")\n	if err := deleteTempFiles(conf.OutputDir); err != nil {\n		return err\n	}\n", "	log.Println(\"deleting temp files\")\n"),
    ("C11-h1-header-preview-from-minsecs", "C11", "cmd/thermal-recorder/cptvfilerecorder.go", "		PreviewSecs:  config.Recorder.PreviewSecs,", "		PreviewSecs:  config.Recorder.MinSecs,"),
    ("C11-h2-motion-config-not-loaded", "C11", "cmd/thermal-recorder/main.go", "	conf.LoadMotionConfig(headerInfo.Model())\n", ""),
    ("C11-h3-boson-big-endian", "C11", "cmd/thermal-recorder/boson.go", "binary.LittleEndian.Uint16(raw[i : i+2])", "binary.BigEndian.Uint16(raw[i : i+2])"),
    ("C11-h4-background-dropped", "C11", "cmd/thermal-recorder/cptvfilerecorder.go", "	fw.header.BackgroundFrame = background\n", "	fw.header.BackgroundFrame = nil\n"),
    ("C11-h5-model-defaults-by-brand", "C11", "cmd/thermal-recorder/main.go", "conf.LoadMotionConfig(headerInfo.Model())", "conf.LoadMotionConfig(headerInfo.Brand())"),
    ("C12-h1-recording-flag-before-start", "C12", "motion/motionprocessor.go", "	if err := mp.recorder.StartRecording(mp.motionDetector.background, mp.motionDetector.tempThresh); err != nil {\n		return err\n	}\n\n	mp.isRecording = true", "	mp.isRecording = true\n	if err := mp.recorder.StartRecording(mp.motionDetector.background, mp.motionDetector.tempThresh); err != nil {\n		return err\n	}\n"),
    ("C13-h1-onedge-gt", "C13", "cmd/thermal-recorder/boson.go", "y >= (len(out.Pix)-edgePixels)", "y > (len(out.Pix)-edgePixels)"),
    ("C13-h2-ring-advanced-on-bad-frame", "C13", "motion/motionprocessor.go", "		mp.stopRecording()\n		mp.stopConstantRecorder()\n		return err", "		mp.stopRecording()\n		mp.stopConstantRecorder()\n		mp.frameLoop.Move()\n		return err"),
    ("C14-h1-fresh-reader-after-header", "C14", "cmd/thermal-recorder/main.go", "	log.Print(\"reading frames\")\n", "	log.Print(\"reading frames\")\n	reader = bufio.NewReader(conn)\n"),
    ("C14-h2-marker-after-full-read", "C14", "cmd/thermal-recorder/main.go", "		_, err := io.ReadFull(reader, rawFrame[:5])", "		_, err := io.ReadFull(reader, rawFrame[:])"),
    ("C14-h3-leptond-marker-changed", "C14", "cmd/leptond/main.go", "clearBuffer    = \"clear\"", "clearBuffer    = \"reset\""),
    ("C14-h4-header-error-keeps-description", "C14", "cmd/thermal-recorder/main.go", "	stateMu.Lock()\n	headerInfo = newHeaderInfo\n	stateMu.Unlock()\n	if err != nil {\n		return err\n	}", "	if err != nil {\n		return err\n	}\n	stateMu.Lock()\n	headerInfo = newHeaderInfo\n	stateMu.Unlock()"),
    ("C15-h1-background-raised-immediately", "C15", "motion/motion.go", "			if prevFFC || (float32(new_frame.Pix[y][x])-weight) < float32(d.background.Pix[y][x]) {", "			if prevFFC || (float32(new_frame.Pix[y][x])-weight) != float32(d.background.Pix[y][x]) {"),
    ("C15-h2-mean-over-all-pixels", "C15", "motion/motion.go", "	d.numPixels = float64((d.rowStop - d.start) * (d.columnStop - d.start))", "	d.numPixels = float64(camera.ResX() * camera.ResY())"),
    ("C16-h1-copyrecent-current-slot", "C16", "motion/frameloop.go", "	previousIndex := (fl.currentIndex - 1 + fl.size) % fl.size\n	return fl.frames[previousIndex].CreateCopy()", "	return fl.frames[fl.currentIndex].CreateCopy()"),
    ("C16-h2-move-without-lock", "C16", "motion/frameloop.go", "func (fl *FrameLoop) Move() *cptvframe.Frame {\n	fl.mu.Lock()\n	defer fl.mu.Unlock()\n", "func (fl *FrameLoop) Move() *cptvframe.Frame {\n"),
    ("C16-h3-processor-published-without-lock", "C16", "cmd/thermal-recorder/main.go", "	stateMu.Lock()\n	processor = newProcessor\n	stateMu.Unlock()", "	processor = newProcessor"),
    ("C17-h1-ge-in-segment-test", "C17", "motion/motionprocessor.go", "	if mp.crFrames > mp.maxFrames {", "	if mp.crFrames >= mp.maxFrames {"),
    ("C17-h2-twenty-frames", "C17", "motion/motionprocessor.go", "	if mp.snapshotFrames > 20 {", "	if mp.snapshotFrames >= 20 {"),
    ("C17-h3-continuous-behind-window", "C17", "motion/motionprocessor.go", "	if mp.crFrames == 0 {\n		if err := mp.constantRecorder", "	if mp.crFrames == 0 {\n		if !mp.window.Active() {\n			return\n		}\n		if err := mp.constantRecorder"),
    ("C18-h1-buffer-returned-before-write", "C18", "cmd/thermal-writer/main.go", "			if err := writeFrame(builder, frame); err != nil {\n				panic(err)\n			}\n			outFrames <- frame // Return the frame to be reused", "			outFrames <- frame // Return the frame to be reused\n			if err := writeFrame(builder, frame); err != nil {\n				panic(err)\n			}"),
    ("C18-h2-no-flush-on-close", "C18", "cmd/thermal-writer/bufferedfile.go", "	if err := bf.w.Flush(); err != nil {\n		return err\n	}\n	return bf.f.Close()", "	return bf.f.Close()"),
    ("C18-h3-close-channel-missing", "C18", "cmd/thermal-writer/main.go", "			close(writeFrames)\n			return err", "			return err"),
    ("C18-h4-rotation-drops-open-file", "C18", "cmd/thermal-writer/main.go", "		case <-changeFile:\n			builder.Close()\n", "		case <-changeFile:\n"),
    ("C19-h1-mark-not-expired", "C19", "motion/frameloop.go", "	if fl.currentIndex == fl.oldest {\n		fl.oldest = NO_OLDEST_SET\n	}\n", ""),
    ("C19-h2-history-wrap-off-by-one", "C19", "motion/frameloop.go", "	copy(fl.orderedFrames[fl.size-nextIndex:], fl.frames[:nextIndex])", "	copy(fl.orderedFrames[fl.size-nextIndex:], fl.frames[:nextIndex-1])"),
    ("C20-h3-daemon-interval-ten-seconds", "C20", "motion/motionprocessor.go", "const minLogInterval = time.Minute", "const minLogInterval = 10 * time.Second"),
    ("C20-h1-state-updated-on-suppressed", "C20", "loglimiter/loglimiter.go", "	if now.Sub(limiter.previousTime) < limiter.interval && s == limiter.previousEntry {\n		return\n	}", "	if now.Sub(limiter.previousTime) < limiter.interval && s == limiter.previousEntry {\n		limiter.previousTime = now\n		return\n	}"),
    ("C20-h2-le-interval", "C20", "loglimiter/loglimiter.go", "now.Sub(limiter.previousTime) < limiter.interval", "now.Sub(limiter.previousTime) <= limiter.interval"),
]

# seeded changes of sub-agents: id -> check that catches it (may differ from the property it was written against)
SEEDED_CHECK = {
    "C04-B": "C04", "C11-A": "C11", "C15-B": "C15", "C08-B": "C13", "C03-A": "C03", "C14-A": "C07", "C08-B2": "C13", "C08-B3": "C13", "C16-A3": "C12", "C14-A": "C14",
    "C07-A4": "C11", "C08-A4": "C13", "C11-A4": "C10",
    "C08-B6": "C13", "C13-A4": "C14", "C12-A7": "C04",
    "C03-B8": "C04", "C04-B8": "C12", "C08-A8": "C13",
    "C13-B9": "C06", "C16-A9": "C12",
    # wave 10
    "C08-A11": "C13",
    "C01-B10": "C04", "C02-B10": "C11", "C05-B10": "C15", "C07-A10": "C13", "C08-B10": "C15", "C11-A10": "C02", "C12-B10": "C13",
    "C02-A5": "C06", "C07-B5": "C14", "C08-A5": "C13", "C14-A5": "C18", "C14-B5": "C16", "C19-A5": "C07", "C19-B5": "C16",
}


SEEDED_BUDGET = {"C18-B8": 300, "C10-B8": 120}
# confirmed changes the simulation does not reach or that leave the statement intact (DESIGN, waves 9 and 10): kept under seeded/, not in the catalogue
SEEDED_OUT_OF_REACH = {
    "C05-A9": "needs the wall clock to step while the monotonic clock goes on; the synctest clock has one reading and the production clock of the throttle cannot be injected",
    "C20-A9": "same: wall-clock step under the limiter's default clock",
    "C06-B9": "descriptor leak per delivered D-Bus event; there is no system bus in the simulation, every event attempt fails before a connection exists",
    "C16-B10": "does not break the statement: the images served stay whole copies of the most recent completed frame; only the frame number next to them (and the 'no new frames yet' refusal derived from it) changes, which C16 does not constrain",
    "C18-B10": "does not break the statement: flush-before-close still happens, only the error value of bufferedFile.Close changes, and the daemon discards that value",
    "C18-B9": "needs more than 256 reconnects in one thermal-writer process (each allocates 32 MiB); the stratum that did this made the runs take minutes",
}


def sh(cmd, cwd=None):
    return subprocess.run(cmd, shell=True, cwd=cwd, capture_output=True, text=True)


def main():
    sh("git -C /repo worktree remove --force %s" % WT)
    r = sh("git -C /repo worktree add --detach %s HEAD -f" % WT)
    if r.returncode != 0:
        print(r.stderr)
        return 1
    cat = []
    try:
        for mid, check, path, old, new in M:
            full = os.path.join(WT, path)
            s = open(full).read()
            if old not in s:
                print("STALE mutant %s: pattern not found in %s" % (mid, path))
                continue
            open(full, "w").write(s.replace(old, new, 1))
            sh("gofmt -w %s" % full)
            d = sh("git diff", WT).stdout
            sh("git checkout -- .", WT)
            open(os.path.join(V, "mutants", mid + ".patch"), "w").write(d)
            cat.append({"id": mid, "patch": "mutants/%s.patch" % mid, "check": check, "origin": "hand-made (DESIGN §5 first mutants)"})
    finally:
        sh("git -C /repo worktree remove --force %s" % WT)
    for d in sorted(os.listdir(os.path.join(V, "seeded"))):
        meta = json.load(open(os.path.join(V, "seeded", d, "meta.json")))
        if d in SEEDED_OUT_OF_REACH:
            continue
        e = {"id": "seeded/" + d, "patch": "seeded/%s/patch.diff" % d, "check": SEEDED_CHECK.get(d, meta["property"]), "origin": "sub-agent, written against " + meta["property"]}
        if d in SEEDED_BUDGET:
            e["budget"] = SEEDED_BUDGET[d]  # needs more than the quick tier's default budget (see DESIGN, wave matrix)
        cat.append(e)
    json.dump(cat, open(os.path.join(V, "mutants", "catalog.json"), "w"), indent=1)
    print("catalogue: %d entries" % len(cat))


if __name__ == "__main__":
    sys.exit(main())
